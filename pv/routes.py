"""Route classification of a request, independent of placement's own table."""
import re
from urllib.parse import urlsplit, parse_qsl

U = r'(?P<uuid>[^/]+)'
PATTERNS = [
    ('root', r'/?'),
    ('rcs', r'/resource_classes'),
    ('rc', r'/resource_classes/(?P<name>[^/]+)'),
    ('rps', r'/resource_providers'),
    ('rp', r'/resource_providers/' + U),
    ('invs', r'/resource_providers/' + U + r'/inventories'),
    ('inv', r'/resource_providers/' + U + r'/inventories/(?P<rc>[^/]+)'),
    ('rp_usages', r'/resource_providers/' + U + r'/usages'),
    ('rp_aggs', r'/resource_providers/' + U + r'/aggregates'),
    ('rp_allocs', r'/resource_providers/' + U + r'/allocations'),
    ('rp_traits', r'/resource_providers/' + U + r'/traits'),
    ('allocs', r'/allocations'),
    ('alloc', r'/allocations/(?P<consumer>[^/]+)'),
    ('acs', r'/allocation_candidates'),
    ('traits', r'/traits'),
    ('trait', r'/traits/(?P<name>[^/]+)'),
    ('usages', r'/usages'),
    ('reshaper', r'/reshaper'),
]
_COMPILED = [(n, re.compile(p + r'\Z')) for n, p in PATTERNS]


def classify(path):
    """-> (route name or None, params dict, query list)"""
    parts = urlsplit(path)
    for name, rx in _COMPILED:
        m = rx.match(parts.path)
        if m:
            return name, m.groupdict(), parse_qsl(parts.query,
                                                  keep_blank_values=True)
    return None, {}, parse_qsl(parts.query, keep_blank_values=True)


def is_alloc_write(req):
    name, params, _ = classify(req['path'])
    m = req['method']
    return ((name == 'alloc' and m == 'PUT') or
            (name == 'allocs' and m == 'POST') or
            (name == 'reshaper' and m == 'POST'))


def vnum(version):
    if version is None:
        return 0
    if version == 'latest':
        return 39
    try:
        return int(version.split('.')[1])
    except Exception:
        return -1


def placed(req):
    """{consumer: {(rp, rc): amount}} as written in the body of an
    allocation-writing request (all consumers named, empty dict = cleared).
    Returns None if the body does not have the expected shape."""
    name, params, _ = classify(req['path'])
    body = req['body']
    try:
        if name == 'alloc':
            c = params['consumer']
            out = {}
            allocs = body['allocations']
            if isinstance(allocs, list):
                for a in allocs:
                    for rc, amt in a['resources'].items():
                        out[(a['resource_provider']['uuid'], rc)] = amt
            else:
                for rp, x in allocs.items():
                    for rc, amt in x['resources'].items():
                        out[(rp, rc)] = amt
            return {c: out}
        if name in ('allocs', 'reshaper'):
            src = body if name == 'allocs' else body['allocations']
            res = {}
            for c, e in src.items():
                out = {}
                for rp, x in e['allocations'].items():
                    for rc, amt in x['resources'].items():
                        out[(rp, rc)] = amt
                res[c] = out
            return res
    except (KeyError, TypeError, AttributeError):
        return None
    return None
