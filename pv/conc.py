"""Concurrency scenarios and history oracles for C05, C06, C07."""
import itertools

from pv import dbdump, world
from pv.client import Req
from pv.world import R, C, S, E, K1, K2, K3, A1, A2

K4 = 'aaaaaaaa-aaaa-4aaa-8aaa-aaaaaaaaaaa4'
MAXINT = 0x7FFFFFFF


# ---------------------------------------------------------------------------
# request builders (functions of the start dump d)
# ---------------------------------------------------------------------------
def g_of(d, p, how):
    g = d.providers[p]['generation']
    return {'cur': g, 'stale': g - 1, 'fresh': g + 1}[how]


def put_invs(p, how, invs):
    def b(d):
        r = Req('PUT', '/resource_providers/%s/inventories' % p, '1.39',
                {'resource_provider_generation': g_of(d, p, how),
                 'inventories': invs})
        r['tag'] = {'pgen': (p, g_of(d, p, how))}
        return r
    return b


def put_inv(p, rc, how, fields):
    def b(d):
        body = dict(fields)
        body['resource_provider_generation'] = g_of(d, p, how)
        r = Req('PUT', '/resource_providers/%s/inventories/%s' % (p, rc),
                '1.39', body)
        r['tag'] = {'pgen': (p, g_of(d, p, how))}
        return r
    return b


def post_inv(p, rc, total):
    return lambda d: Req('POST', '/resource_providers/%s/inventories' % p,
                         '1.39', {'resource_class': rc, 'total': total})


def delete_inv(p, rc):
    return lambda d: Req('DELETE', '/resource_providers/%s/inventories/%s'
                         % (p, rc), '1.39')


def delete_invs(p):
    return lambda d: Req('DELETE', '/resource_providers/%s/inventories' % p,
                         '1.39')


def put_traits(p, how, traits):
    def b(d):
        r = Req('PUT', '/resource_providers/%s/traits' % p, '1.39',
                {'resource_provider_generation': g_of(d, p, how),
                 'traits': traits})
        r['tag'] = {'pgen': (p, g_of(d, p, how))}
        return r
    return b


def delete_traits(p):
    return lambda d: Req('DELETE', '/resource_providers/%s/traits' % p,
                         '1.39')


def put_aggs(p, how, aggs, version='1.39'):
    def b(d):
        if version == '1.1':
            return Req('PUT', '/resource_providers/%s/aggregates' % p, '1.1',
                       aggs)
        r = Req('PUT', '/resource_providers/%s/aggregates' % p, version,
                {'resource_provider_generation': g_of(d, p, how),
                 'aggregates': aggs})
        r['tag'] = {'pgen': (p, g_of(d, p, how))}
        return r
    return b


def delete_rp(p):
    return lambda d: Req('DELETE', '/resource_providers/%s' % p, '1.39')


def cgen_of(d, c, how):
    cur = d.consumers.get(c)
    g = cur['generation'] if cur else None
    if how == 'cur':
        return g
    if how == 'null':
        return None
    if how == 'stale':
        return (g or 1) - 1
    if how == 'fresh':
        return (g or 0) + 1
    return how


def put_alloc(c, allocs, how='cur', project='pA', user='uA', ctype='INSTANCE',
              version='1.39'):
    def b(d):
        body = {'allocations': {p: {'resources': dict(r)}
                                for p, r in allocs.items()},
                'project_id': project, 'user_id': user}
        minor = int(version.split('.')[1])
        tag = {}
        if minor >= 28:
            body['consumer_generation'] = cgen_of(d, c, how)
            tag['cgen'] = {c: body['consumer_generation']}
        if minor >= 38:
            body['consumer_type'] = ctype
        r = Req('PUT', '/allocations/%s' % c, version, body)
        r['tag'] = tag
        return r
    return b


def post_allocs(entries, version='1.39'):
    """entries: {consumer: (allocs, how, project)}"""
    def b(d):
        body = {}
        tag = {'cgen': {}}
        for c, (allocs, how, project) in entries.items():
            body[c] = {'allocations': {p: {'resources': dict(r)}
                                       for p, r in allocs.items()},
                       'project_id': project, 'user_id': 'uP',
                       'consumer_generation': cgen_of(d, c, how),
                       'consumer_type': 'INSTANCE'}
            tag['cgen'][c] = body[c]['consumer_generation']
            if int(version.split('.')[1]) < 38:
                del body[c]['consumer_type']
            if int(version.split('.')[1]) < 28:
                del body[c]['consumer_generation']
                del tag['cgen'][c]
        r = Req('POST', '/allocations', version, body)
        r['tag'] = tag
        return r
    return b


def delete_alloc(c):
    return lambda d: Req('DELETE', '/allocations/%s' % c, '1.39')


def reshape_move(src, rc, dst, how_src='cur', how_dst='cur',
                 consumers_how='cur', also=None, how_also='cur', attrs=None,
                 newc=None):
    """move inventory rc and its usage from src to dst; `also`: a third
    provider listed with the inventory it already has; `newc`: a consumer
    that does not exist yet and gets one unit of rc on dst."""
    def b(d):
        cur = {}
        for (p, k), f in d.inventories.items():
            cur.setdefault(p, {})[k] = dict(f)
        s_inv = dict(cur.get(src, {}))
        moved = s_inv.pop(rc)
        d_inv = dict(cur.get(dst, {}))
        d_inv[rc] = moved
        allocs = {}
        tag = {'cgen': {}, 'pgens': [(src, g_of(d, src, how_src)),
                                     (dst, g_of(d, dst, how_dst))]}
        for c in sorted({c for (c, p, k) in d.allocs
                         if p == src and k == rc}):
            new = {}
            for (cc, p, k), used in d.allocs.items():
                if cc != c:
                    continue
                tp = dst if (p == src and k == rc) else p
                new.setdefault(tp, {'resources': {}})['resources'][k] = used
            cons = d.consumers[c]
            allocs[c] = {'allocations': new, 'project_id': cons['project'],
                         'user_id': cons['user'],
                         'consumer_generation': cgen_of(d, c, consumers_how),
                         'consumer_type': cons['type'] or 'INSTANCE'}
            if attrs:
                # the reshape also names another project / user / type
                allocs[c].update({'project_id': attrs[0],
                                  'user_id': attrs[1],
                                  'consumer_type': attrs[2]})
            tag['cgen'][c] = allocs[c]['consumer_generation']
        if newc is not None:
            allocs[newc] = {'allocations': {dst: {'resources': {rc: 1}}},
                           'project_id': 'pN', 'user_id': 'uN',
                           'consumer_generation': None,
                           'consumer_type': 'INSTANCE'}
            tag['cgen'][newc] = None
        invs = {
            src: {'resource_provider_generation':
                  g_of(d, src, how_src), 'inventories': s_inv},
            dst: {'resource_provider_generation':
                  g_of(d, dst, how_dst), 'inventories': d_inv}}
        if also is not None:
            invs[also] = {'resource_provider_generation':
                          g_of(d, also, how_also),
                          'inventories': dict(cur.get(also, {}))}
            tag['pgens'].append((also, g_of(d, also, how_also)))
        r = Req('POST', '/reshaper', '1.39', {
            'inventories': invs, 'allocations': allocs}, roles='service')
        r['tag'] = tag
        return r
    return b


def reshape_drop(p, how='cur', consumers_how='cur', keep=None):
    """reshape provider p to an empty inventory (or to `keep`), removing
    every consumer's allocations on it."""
    def b(d):
        allocs = {}
        tag = {'cgen': {}, 'pgens': [(p, g_of(d, p, how))]}
        for c in sorted({c for (c, u, k) in d.allocs if u == p}):
            new = {}
            for (cc, u, k), used in d.allocs.items():
                if cc == c and u != p:
                    new.setdefault(u, {'resources': {}})['resources'][k] = \
                        used
            cons = d.consumers[c]
            allocs[c] = {'allocations': new, 'project_id': cons['project'],
                         'user_id': cons['user'],
                         'consumer_generation': cgen_of(d, c, consumers_how),
                         'consumer_type': cons['type'] or 'INSTANCE'}
            tag['cgen'][c] = allocs[c]['consumer_generation']
        r = Req('POST', '/reshaper', '1.39', {
            'inventories': {p: {'resource_provider_generation':
                                g_of(d, p, how),
                                'inventories': keep or {}}},
            'allocations': allocs}, roles='service')
        r['tag'] = tag
        return r
    return b


# ---------------------------------------------------------------------------
# scenario catalogues
# ---------------------------------------------------------------------------
INV1 = {'VCPU': {'total': 8}, 'DISK_GB': {'total': 10}}
INV2 = {'VCPU': {'total': 6, 'reserved': 1}}
INV3 = {'MEMORY_MB': {'total': 128}}


def scenarios_c05():
    out = []
    writers = {
        'invs1': lambda how: put_invs(E, how, INV1),
        'invs2': lambda how: put_invs(E, how, INV2),
        'inv': lambda how: put_inv(E, 'VCPU', how, {'total': 12}),
        'traits1': lambda how: put_traits(E, how, ['CUSTOM_T1']),
        'traits2': lambda how: put_traits(E, how, ['HW_CPU_X86_AVX',
                                                   'CUSTOM_UNUSED']),
        'aggs1': lambda how: put_aggs(E, how, [A1]),
        'aggs2': lambda how: put_aggs(E, how, [A2]),
        'reshape': lambda how: reshape_move(R, 'VCPU', E, 'cur', how),
    }
    derived = {
        'post_inv': post_inv(E, 'DISK_GB', 7),
        'del_inv': delete_inv(E, 'VCPU'),
        'del_invs': delete_invs(E),
        'del_traits': delete_traits(E),
        'aggs_old': put_aggs(E, 'cur', [A1, A2], '1.1'),
        'claim': put_alloc(K3, {E: {'VCPU': 1}}, 'null'),
        'post_claim': post_allocs({K4: ({E: {'VCPU': 2}}, 'null', 'pX')}),
    }
    names = sorted(writers)
    for a, b in itertools.combinations_with_replacement(names, 2):
        if a == b and a in ('reshape',):
            continue
        for ha, hb in (('cur', 'cur'), ('cur', 'stale'), ('cur', 'fresh')):
            if a == b and (ha, hb) != ('cur', 'cur'):
                continue
            bb = b
            if a == b:
                # same route twice: give the second different data
                alt = {'invs1': 'invs2', 'invs2': 'invs1',
                       'traits1': 'traits2', 'traits2': 'traits1',
                       'aggs1': 'aggs2', 'aggs2': 'aggs1', 'inv': 'inv'}
                bb = alt[a]
            out.append(('%s:%s|%s:%s' % (a, ha, bb, hb),
                        {'A': writers[a](ha), 'B': writers[bb](hb)}))
    # (known finding D22, reproduced on every run) two allocation writes for
    # one not-yet-existing consumer on E, one carrying null, one carrying 0
    out.append(('new consumer on E: claim null|claim 0', {
        'A': put_alloc(K3, {E: {'VCPU': 1}}, 'null', 'pA'),
        'B': put_alloc(K3, {E: {'VCPU': 2}}, 0, 'pB')}))
    # a reshape that lists a provider with the inventory it already has,
    # racing writers of that provider
    for wname in ('traits1', 'aggs1', 'invs1', 'inv'):
        for hb in ('cur', 'stale'):
            out.append(('reshape listing E unchanged|%s:%s' % (wname, hb), {
                'A': reshape_move(R, 'VCPU', C, also=E),
                'B': writers[wname](hb)}))
    out.append(('reshape listing E unchanged|claim', {
        'A': reshape_move(R, 'VCPU', C, also=E), 'B': derived['claim']}))
    # the same request twice (identical data, same generation): the second
    # one to commit finds nothing left to change, yet is stale
    for a in names:
        if a != 'reshape':
            out.append(('%s:cur|%s:cur identical' % (a, a),
                        {'A': writers[a]('cur'), 'B': writers[a]('cur')}))
    for a in names:
        for dname in sorted(derived):
            out.append(('%s:cur|%s' % (a, dname),
                        {'A': writers[a]('cur'), 'B': derived[dname]}))
    for d1, d2 in itertools.combinations(sorted(derived), 2):
        out.append(('%s|%s' % (d1, d2), {'A': derived[d1],
                                         'B': derived[d2]}))
    # shapes at the edges: empty sets, reshapes that only remove
    for rname, rb in (('reshape_drop_C', reshape_drop(C)),
                      ('reshape_drop_S', reshape_drop(S)),
                      ('reshape_drop_R_keep_mem', reshape_drop(
                          R, keep={'DISK_GB': {'total': 5}}))):
        p = {'reshape_drop_C': C, 'reshape_drop_S': S,
             'reshape_drop_R_keep_mem': R}[rname]
        rc = {C: 'CUSTOM_A', S: 'DISK_GB', R: 'VCPU'}[p]
        for oname, ob in (
                ('inv', put_inv(p, rc, 'cur', {'total': 64})),
                ('invs_empty', put_invs(p, 'cur', {})),
                ('traits_empty', put_traits(p, 'cur', [])),
                ('traits', put_traits(p, 'cur', ['CUSTOM_UNUSED'])),
                ('aggs_empty', put_aggs(p, 'cur', [])),
                ('claim', put_alloc(K3, {p: {rc: 1}}, 'null'))):
            out.append(('%s|%s' % (rname, oname), {'A': rb, 'B': ob}))
    # a consumer living on E only: a reshape that retires E wipes it
    def solo(client):
        r = client.call('PUT', '/allocations/%s' % K4, {
            'allocations': {E: {'resources': {'VCPU': 2}}},
            'project_id': 'pS', 'user_id': 'uS',
            'consumer_generation': None, 'consumer_type': 'INSTANCE'})
        assert r.status == 204, r.status
    for oname, ob in (
            ('invs', put_invs(E, 'cur', {'VCPU': {'total': 16}})),
            ('inv', put_inv(E, 'VCPU', 'cur', {'total': 16})),
            ('traits', put_traits(E, 'cur', ['CUSTOM_T1'])),
            ('aggs', put_aggs(E, 'cur', [A1])),
            ('claim', put_alloc(K3, {E: {'VCPU': 1}}, 'null')),
            ('post_inv', post_inv(E, 'DISK_GB', 7))):
        out.append(('retire E (solo consumer)|%s' % oname,
                    {'A': reshape_drop(E), 'B': ob}, solo))
    # a database fault inside one of the racing requests: the duplicate-key
    # race on a never-seen aggregate (retried by the server in a NEW
    # transaction) while another request carrying the same generation commits
    NEWAGG = 'cccccccc-cccc-4ccc-8ccc-ccccccccccc7'
    for oname, ob in (
            ('traits', put_traits(E, 'cur', ['CUSTOM_T1'])),
            ('invs', put_invs(E, 'cur', INV2)),
            ('aggs2', put_aggs(E, 'cur', [A2])),
            ('claim', put_alloc(K3, {E: {'VCPU': 1}}, 'null'))):
        out.append(('aggs new (duplicate-key race, retried)|%s' % oname,
                    {'A': put_aggs(E, 'cur', [NEWAGG, A1]), 'B': ob}, None,
                    {'A': ('DUP', 'placement_aggregates')}))
    out.append(('invs_empty|traits_empty (E)', {
        'A': put_invs(E, 'cur', {}), 'B': put_traits(E, 'cur', [])}))
    out.append(('invs_empty|aggs (E)', {
        'A': put_invs(E, 'cur', {}), 'B': put_aggs(E, 'cur', [A1])}))
    # triples carrying the same generation
    out.append(('invs1|traits1|aggs1 (same gen)',
                {'A': writers['invs1']('cur'), 'B': writers['traits1']('cur'),
                 'C': writers['aggs1']('cur')}))
    out.append(('invs1|invs2|inv (same gen)',
                {'A': writers['invs1']('cur'), 'B': writers['invs2']('cur'),
                 'C': writers['inv']('cur')}))
    out.append(('traits1|claim|del_inv',
                {'A': writers['traits1']('cur'), 'B': derived['claim'],
                 'C': derived['del_inv']}))
    # a deadlock reported at the COMMIT of one guarded write while another
    # one carrying the same generation is in flight: whether the server gives
    # up (5xx, nothing stored) or tries again, at most one of them is applied
    for a, b in (('invs1', 'invs2'), ('inv', 'traits1'), ('traits1', 'aggs1'),
                 ('aggs1', 'invs1')):
        out.append(('%s (deadlock at COMMIT)|%s' % (a, b),
                    {'A': writers[a]('cur'), 'B': writers[b]('cur')}, None,
                    {'A': ('DLC', 'resource_providers')}))
    # provider-writing requests that neither carry nor advance a generation
    # (rename, re-parent): they read the provider in one transaction and
    # write it in another
    def rename(version='1.39', parent=Ellipsis):
        def b(d):
            body = {'name': 'renamed-E'}
            if parent is not Ellipsis:
                body['parent_provider_uuid'] = parent
            return Req('PUT', '/resource_providers/%s' % E, version, body)
        return b
    for rn, rb in (('rename', rename()), ('rename 1.0', rename('1.0')),
                   ('parent to C', rename(parent=C))):
        for a in ('invs1', 'traits1', 'aggs1', 'inv', 'reshape'):
            out.append(('%s|%s:cur' % (rn, a),
                        {'A': rb, 'B': writers[a]('cur')}))
        out.append(('%s|claim' % rn, {'A': rb, 'B': derived['claim']}))
    out.append(('rename|invs1|invs2 (same gen)',
                {'A': rename(), 'B': writers['invs1']('cur'),
                 'C': writers['invs2']('cur')}))
    out.append(('rename|traits1|inv (same gen)',
                {'A': rename(), 'B': writers['traits1']('cur'),
                 'C': writers['inv']('cur')}))
    return out


def scenarios_c06():
    out = []
    a1 = {R: {'VCPU': 1}}
    a2 = {R: {'VCPU': 2}, S: {'DISK_GB': 5}}
    a3 = {E: {'VCPU': 1}}
    for how_a, how_b in (('null', 'null'), ('null', 'stale'),
                         ('null', 'fresh')):
        out.append(('new: put:%s|put:%s' % (how_a, how_b), {
            'A': put_alloc(K3, a1, how_a, 'pA'),
            'B': put_alloc(K3, a2, how_b, 'pB', ctype='MIGRATION')}))
        out.append(('new: put:%s|post:%s' % (how_a, how_b), {
            'A': put_alloc(K3, a1, how_a, 'pA'),
            'B': post_allocs({K3: (a2, how_b, 'pB'),
                              K4: (a3, 'null', 'pB')})}))
    out.append(('new: post|post', {
        'A': post_allocs({K3: (a1, 'null', 'pA'), K4: (a3, 'null', 'pA')}),
        'B': post_allocs({K3: (a2, 'null', 'pB')})}))
    for how_a, how_b in (('cur', 'cur'), ('cur', 'stale'), ('cur', 'fresh'),
                         ('cur', 'null')):
        out.append(('existing: put:%s|put:%s' % (how_a, how_b), {
            'A': put_alloc(K1, a1, how_a, 'pA'),
            'B': put_alloc(K1, a2, how_b, 'pB', ctype='MIGRATION')}))
        out.append(('existing: put:%s|post:%s' % (how_a, how_b), {
            'A': put_alloc(K1, a1, how_a, 'pA'),
            'B': post_allocs({K1: (a2, how_b, 'pB'),
                              K2: ({R: {'VCPU': 1}}, 'cur', 'pB')})}))
    out.append(('existing: put|reshape', {
        'A': put_alloc(K1, a2, 'cur', 'pA'),
        'B': reshape_move(R, 'VCPU', C)}))
    out.append(('existing: post|reshape', {
        'A': post_allocs({K2: ({R: {'VCPU': 3}}, 'cur', 'pB')}),
        'B': reshape_move(R, 'VCPU', C)}))
    out.append(('existing: put|reshape changing project, user, type', {
        'A': put_alloc(K1, a2, 'cur', 'pA'),
        'B': reshape_move(R, 'VCPU', C,
                          attrs=('proj-rs', 'user-rs', 'RESHAPED'))}))
    out.append(('existing: post (1.36, no type)|reshape changing attributes',
                {'A': post_allocs({K2: ({R: {'VCPU': 3}}, 'cur', 'pB')},
                                  '1.36'),
                 'B': reshape_move(R, 'VCPU', C,
                                   attrs=('proj-rs', 'user-rs',
                                          'RESHAPED'))}))
    # a reshape that also names a consumer that does not exist yet, losing
    # a provider-generation or consumer race after it has created it
    for oname, ob in (
            ('inventory of C', put_inv(C, 'CUSTOM_A', 'cur', {'total': 9})),
            ('traits of R', put_traits(R, 'cur', ['CUSTOM_T1',
                                                  'CUSTOM_UNUSED'])),
            ('aggregates of C', put_aggs(C, 'cur', [A1])),
            ('put K3 null', put_alloc(K3, a3, 'null', 'pB')),
            ('put existing consumer', put_alloc(K1, a2, 'cur', 'pA'))):
        out.append(('reshape creating K3 | %s' % oname, {
            'A': reshape_move(R, 'VCPU', C, newc=K3), 'B': ob}))
    for nm, aa in (('post', post_allocs({K1: (a2, 'cur', 'pA')})),
                   ('put', put_alloc(K1, a2, 'cur', 'pA')),
                   ('reshape', reshape_move(R, 'VCPU', C))):
        out.append(('existing: %s (deadlock at COMMIT)|put' % nm, {
            'A': aa, 'B': put_alloc(K1, a1, 'cur', 'pB')}, None,
            {'A': ('DLC', 'consumers')}))
    def _solo6(client):
        r = client.call('PUT', '/allocations/%s' % K4, {
            'allocations': {E: {'resources': {'VCPU': 2}}},
            'project_id': 'pS', 'user_id': 'uS',
            'consumer_generation': None, 'consumer_type': 'INSTANCE'})
        assert r.status == 204, r.status
    for nm, aa in (('post', post_allocs({K4: (a3, 'cur', 'pA')})),
                   ('put', put_alloc(K4, a3, 'cur', 'pA'))):
        out.append(('solo on E: %s (deadlock at COMMIT)|put' % nm, {
            'A': aa, 'B': put_alloc(K4, {E: {'VCPU': 3}}, 'cur', 'pB')},
            _solo6, {'A': ('DLC', 'consumers')}))
    out.append(('existing: put-clear|put', {
        'A': put_alloc(K1, {}, 'cur', 'pA'),
        'B': put_alloc(K1, a1, 'cur', 'pB')}))
    # one request names a consumer that does not exist yet AND an existing
    # one that another request is writing
    out.append(('mixed post (new first) | put existing', {
        'A': post_allocs({K3: (a3, 'null', 'pA'), K1: (a2, 'cur', 'pA')}),
        'B': put_alloc(K1, a1, 'cur', 'pB')}))
    out.append(('mixed post (existing first) | put existing', {
        'A': post_allocs({K1: (a2, 'cur', 'pA'), K4: (a3, 'null', 'pA')}),
        'B': put_alloc(K1, a1, 'cur', 'pB')}))
    out.append(('mixed post | post existing', {
        'A': post_allocs({K3: (a3, 'null', 'pA'), K2: (a2, 'cur', 'pA')}),
        'B': post_allocs({K2: ({R: {'VCPU': 1}}, 'cur', 'pB')})}))
    # a request naming a NEW consumer with nothing to write, racing a writer
    # that carries generation 0 for it
    out.append(('new: put-empty:null|put:0', {
        'A': put_alloc(K3, {}, 'null', 'pA'),
        'B': put_alloc(K3, a1, 0, 'pB')}))
    out.append(('new: post-empty:null + write|put:0', {
        'A': post_allocs({K3: ({}, 'null', 'pA'), K4: (a3, 'null', 'pA')}),
        'B': put_alloc(K3, a1, 0, 'pB')}))
    # creators of one consumer at different microversions: the loser of the
    # creation race is refused (409) - and changes nothing, not even the
    # consumer type it does not know about
    out.append(('new: put 1.37 (no type) null|put 1.39 null typed', {
        'A': put_alloc(K3, a1, 'null', 'pA', version='1.37'),
        'B': put_alloc(K3, a2, 'null', 'pB', ctype='MIGRATION')}))
    out.append(('new: post 1.36 null|put 1.39 null typed', {
        'A': post_allocs({K3: (a1, 'null', 'pA')}, '1.36'),
        'B': put_alloc(K3, a2, 'null', 'pB', ctype='MIGRATION')}))
    # a write that re-sends exactly what the consumer already holds is still
    # a write: it is guarded by, and moves, the consumer generation
    def _held(d, c):
        out_ = {}
        for (cc, p, rc), used in d.allocs.items():
            if cc == c:
                out_.setdefault(p, {})[rc] = used
        return out_
    out.append(('existing: post unchanged|put:cur', {
        'A': lambda d: post_allocs({K1: (_held(d, K1), 'cur',
                                         d.consumers[K1]['project'])})(d),
        'B': put_alloc(K1, a1, 'cur', 'pB')}))
    out.append(('existing: put unchanged|put unchanged', {
        'A': lambda d: put_alloc(K1, _held(d, K1), 'cur',
                                 d.consumers[K1]['project'],
                                 d.consumers[K1]['user'])(d),
        'B': lambda d: put_alloc(K1, _held(d, K1), 'cur',
                                 d.consumers[K1]['project'],
                                 d.consumers[K1]['user'])(d)}))
    # an allocation write that also moves the consumer to another project,
    # user and type, overtaken by a write to the provider it claims on (the
    # server retries it)
    out.append(('existing: put other project/user/type | inventory of R', {
        'A': put_alloc(K1, a1, 'cur', 'proj-moved', 'user-moved',
                       'MIGRATION'),
        'B': put_inv(R, 'VCPU', 'cur', {'total': 32,
                                        'allocation_ratio': 2.0})}))
    out.append(('existing: post other project | traits of R', {
        'A': post_allocs({K1: (a1, 'cur', 'proj-moved')}),
        'B': put_traits(R, 'cur', ['CUSTOM_T1'])}))
    # one POST carrying DIFFERENT generations for two consumers, one of which
    # a racing write moves to the generation carried for the other
    def _k2_once_more(client):
        d_ = client.call('GET', '/allocations/%s' % K2).json
        r = client.call('PUT', '/allocations/%s' % K2, {
            'allocations': d_['allocations'],
            'project_id': d_['project_id'], 'user_id': d_['user_id'],
            'consumer_generation': d_['consumer_generation'],
            'consumer_type': d_.get('consumer_type') or 'INSTANCE'})
        assert r.status == 204, (r.status, r.body)
    out.append(('existing: post K1@g, K2@g+1 | put K1@g', {
        'A': post_allocs({K1: (a1, 'cur', 'pA'),
                          K2: ({R: {'VCPU': 1}}, 'cur', 'pA')}),
        'B': put_alloc(K1, a2, 'cur', 'pB')}, _k2_once_more))
    # clearing writes in flight together
    out.append(('existing: put-clear|put-clear identical', {
        'A': put_alloc(K1, {}, 'cur', 'pA'),
        'B': put_alloc(K1, {}, 'cur', 'pA')}))
    out.append(('existing: post-clear + new|put-clear', {
        'A': post_allocs({K1: ({}, 'cur', 'pA'), K3: (a3, 'null', 'pA')}),
        'B': put_alloc(K1, {}, 'cur', 'pA')}))
    out.append(('existing: put identical|put identical', {
        'A': put_alloc(K1, a2, 'cur', 'pA'),
        'B': put_alloc(K1, a2, 'cur', 'pA')}))
    out.append(('new: three writers null', {
        'A': put_alloc(K3, a1, 'null', 'pA'),
        'B': put_alloc(K3, a2, 'null', 'pB'),
        'C': put_alloc(K3, a3, 'null', 'pC')}))
    out.append(('existing: three writers cur', {
        'A': put_alloc(K1, a1, 'cur', 'pA'),
        'B': put_alloc(K1, a2, 'cur', 'pB'),
        'C': post_allocs({K1: (a3, 'cur', 'pC')})}))
    return out


def scenarios_c07():
    out = []
    # E has VCPU total 4 (ratio 1): the last units
    out.append(('last units: 3+3 of 4', {
        'A': put_alloc(K3, {E: {'VCPU': 3}}, 'null'),
        'B': put_alloc(K4, {E: {'VCPU': 3}}, 'null')}))
    out.append(('both fit: 2+2 of 4', {
        'A': put_alloc(K3, {E: {'VCPU': 2}}, 'null'),
        'B': put_alloc(K4, {E: {'VCPU': 2}}, 'null')}))
    out.append(('three claims 2+2+2 of 4', {
        'A': put_alloc(K3, {E: {'VCPU': 2}}, 'null'),
        'B': put_alloc(K4, {E: {'VCPU': 2}}, 'null'),
        'C': post_allocs({K1: ({E: {'VCPU': 2}}, 'cur', 'pC')})}))
    out.append(('claim vs inventory shrink', {
        'A': put_alloc(K3, {E: {'VCPU': 3}}, 'null'),
        'B': put_inv(E, 'VCPU', 'cur', {'total': 2})}))
    out.append(('claim vs inventories replaced', {
        'A': put_alloc(K3, {E: {'VCPU': 3}}, 'null'),
        'B': put_invs(E, 'cur', INV3)}))
    out.append(('claim vs inventory delete', {
        'A': put_alloc(K3, {E: {'VCPU': 1}}, 'null'),
        'B': delete_inv(E, 'VCPU')}))
    out.append(('claim vs traits', {
        'A': put_alloc(K3, {E: {'VCPU': 1}}, 'null'),
        'B': put_traits(E, 'cur', ['CUSTOM_T1'])}))
    out.append(('claim vs aggregates', {
        'A': put_alloc(K3, {E: {'VCPU': 1}}, 'null'),
        'B': put_aggs(E, 'cur', [A2])}))
    out.append(('claim vs provider delete', {
        'A': put_alloc(K3, {E: {'VCPU': 1}}, 'null'),
        'B': delete_rp(E)}))
    out.append(('multi-provider claims sharing one provider', {
        'A': put_alloc(K3, {E: {'VCPU': 3}, S: {'DISK_GB': 10}}, 'null'),
        'B': put_alloc(K4, {E: {'VCPU': 3}, R: {'MEMORY_MB': 64}},
                       'null')}))
    out.append(('multi-consumer post vs put', {
        'A': post_allocs({K3: ({E: {'VCPU': 2}}, 'null', 'pA'),
                          K4: ({E: {'VCPU': 1}}, 'null', 'pA')}),
        'B': put_alloc(K1, {E: {'VCPU': 2}, S: {'DISK_GB': 10}}, 'cur')}))
    out.append(('claim vs same consumer move', {
        'A': put_alloc(K1, {E: {'VCPU': 4}}, 'cur'),
        'B': put_alloc(K1, {R: {'VCPU': 8}}, 'cur')}))
    out.append(('claim vs reshape of the provider', {
        'A': put_alloc(K3, {R: {'VCPU': 4}}, 'null'),
        'B': reshape_move(R, 'VCPU', C)}))
    out.append(('grow at full utilisation vs release', {
        'A': put_alloc(K3, {C: {'CUSTOM_A': 3}}, 'null'),
        'B': put_alloc(K2, {}, 'cur', 'proj-other', 'user-other',
                       'MIGRATION')}))
    # (known finding D22) a writer carrying generation 0 for a consumer
    # that does not exist yet, racing the request that auto-creates it
    out.append(('new consumer: put:null vs put:0', {
        'A': put_alloc(K3, {E: {'VCPU': 1}}, 'null', 'pA'),
        'B': put_alloc(K3, {E: {'VCPU': 2}}, 0, 'pB')}))
    # identical guarded writes in flight together: whatever the second one
    # finds, in every serial order it is stale
    out.append(('identical: traits', {
        'A': put_traits(E, 'cur', ['CUSTOM_T1']),
        'B': put_traits(E, 'cur', ['CUSTOM_T1'])}))
    out.append(('identical: aggregates', {
        'A': put_aggs(E, 'cur', [A1, A2]),
        'B': put_aggs(E, 'cur', [A1, A2])}))
    out.append(('identical: inventories', {
        'A': put_invs(E, 'cur', INV3),
        'B': put_invs(E, 'cur', INV3)}))
    out.append(('identical: one inventory', {
        'A': put_inv(E, 'VCPU', 'cur', {'total': 12}),
        'B': put_inv(E, 'VCPU', 'cur', {'total': 12})}))
    out.append(('identical: traits x3', {
        'A': put_traits(E, 'cur', ['CUSTOM_T1']),
        'B': put_traits(E, 'cur', ['CUSTOM_T1']),
        'C': put_traits(E, 'cur', ['CUSTOM_T1'])}))
    # a reshape that empties a provider (and the consumers on it) racing
    # generation-guarded writes and claims on that provider
    def _solo(client):
        r = client.call('PUT', '/allocations/%s' % K4, {
            'allocations': {E: {'resources': {'VCPU': 2}}},
            'project_id': 'pS', 'user_id': 'uS',
            'consumer_generation': None, 'consumer_type': 'INSTANCE'})
        assert r.status == 204, r.status
    for oname, ob in (
            ('traits', put_traits(E, 'cur', ['CUSTOM_T1'])),
            ('inventories', put_invs(E, 'cur', {'VCPU': {'total': 16}})),
            ('aggregates', put_aggs(E, 'cur', [A1])),
            ('claim', put_alloc(K3, {E: {'VCPU': 1}}, 'null'))):
        out.append(('reshape retiring E and its consumer | %s' % oname,
                    {'A': reshape_drop(E), 'B': ob}, _solo))
    # a consumer releasing everything while another write moves the
    # generation of the provider it leaves (the server retries the release)
    out.append(('release of solo consumer on E | claim on E', {
        'A': put_alloc(K4, {}, 'cur', 'pS', 'uS'),
        'B': put_alloc(K3, {E: {'VCPU': 1}}, 'null')}, _solo))
    out.append(('release of solo consumer on E (post) | inventory of E', {
        'A': post_allocs({K4: ({}, 'cur', 'pS')}),
        'B': put_inv(E, 'VCPU', 'cur', {'total': 6})}, _solo))
    out.append(('reshape emptying S | traits of S', {
        'A': reshape_drop(S), 'B': put_traits(S, 'cur', ['CUSTOM_UNUSED'])}))
    out.append(('claim vs delete of other consumer + inventory shrink', {
        'A': put_alloc(K3, {E: {'VCPU': 4}}, 'null'),
        'B': put_alloc(K1, {}, 'cur', world.PROJECT, world.USER),
        'C': put_inv(E, 'VCPU', 'cur', {'total': 4, 'reserved': 1})}))
    return out


# ---------------------------------------------------------------------------
# oracles over one scheduled run
# ---------------------------------------------------------------------------
def rp_facet(d, p):
    if p not in d.providers:
        return None
    return (d.providers[p]['generation'],
            tuple(sorted((rc, tuple(sorted(f.items())))
                         for (u, rc), f in d.inventories.items() if u == p)),
            tuple(sorted(t for (u, t) in d.rp_traits if u == p)),
            tuple(sorted(a for (u, a) in d.rp_aggs if u == p)),
            tuple(sorted((c, rc, n) for (c, u, rc), n in d.allocs.items()
                         if u == p)))


def consumer_facet(d, c):
    return (tuple(sorted(d.consumers[c].items())) if c in d.consumers
            else None,
            tuple(sorted((u, rc, n) for (cc, u, rc), n in d.allocs.items()
                         if cc == c)))


def _final_writer_clause(pid, scen_name, reqs, d0, result, succ, final, res,
                         wit):
    """C06: the consumer's final allocations / attributes are those of the
    last successful writer in commit order; the consumer record exists iff it
    holds allocations; a request answered with an error changed nothing of
    it."""
    from pv.routes import placed
    order = result['order']
    seq = [(None, None, d0)] + list(result['states'])
    consumers = set()
    for n, r in reqs.items():
        consumers |= set((r['tag'] or {}).get('cgen', {}))
    for c in sorted(consumers):
        last = None
        for i in range(1, len(seq)):
            n = seq[i][1]
            if n in succ and c in (reqs[n]['tag'] or {}).get('cgen', {}) and \
                    consumer_facet(seq[i - 1][2], c) != \
                    consumer_facet(seq[i][2], c):
                last = (i, n)
        res.count('final_writer_checks')
        have = {(u, rc): a for (cc, u, rc), a in final.allocs.items()
                if cc == c}
        if last is None:
            want = {(u, rc): a for (cc, u, rc), a in d0.allocs.items()
                    if cc == c}
            who = 'the start state (no successful writer changed it)'
        else:
            pl = placed(reqs[last[1]]) or {}
            want = {k: a for k, a in pl.get(c, {}).items() if a > 0}
            who = 'the last successful writer %s' % last[1]
        if have != want:
            res.violation(
                '%s|final-allocations-differ-from-last-successful-writer|%s'
                % (pid, scen_name),
                '%s [%s]: consumer %s ends with %r, %s wrote %r' % (
                    scen_name, order, c, have, who, want), wit)
        row = c in final.consumers
        if row != bool(have):
            res.violation(
                '%s|consumer-record-inconsistent-with-allocations|%s|%s' % (
                    pid, 'row-missing' if have else 'row-without-allocations',
                    scen_name),
                '%s [%s]: consumer %s %s but %s' % (
                    scen_name, order, c,
                    'has a record' if row else 'has no record',
                    'holds %r' % have if have else 'holds nothing'), wit)


class SerialCache(object):
    """Serial replays of the real code, memoised per scenario."""

    def __init__(self, svc, snap, reqs):
        self.svc = svc
        self.snap = snap
        self.reqs = reqs
        self.memo = {}
        self.replays = 0

    def run(self, order):
        if order not in self.memo:
            self.svc.app.restore(self.snap)
            sts = []
            for n in order:
                sts.append(self.svc.client.send(self.reqs[n],
                                                record=False).status)
            self.memo[order] = (sts, dbdump.take(self.svc.app.db_path))
            self.replays += 1
        return self.memo[order]


def judge(pid, scen_name, reqs, d0, result, serial, res, use_serial=True):
    """All oracles for one scheduled run.  pid in C05/C06/C07 selects the
    signature prefix; every clause is evaluated for every property (they
    share the history) but reported under the running check only."""
    results = result['results']
    order = result['order']
    names = sorted(reqs)
    statuses = {n: (results[n].status if results[n] is not None else None)
                for n in names}
    outcome = '/'.join(str(statuses[n]) for n in names)
    final = result['states'][-1][2] if result['states'] else d0
    wit = {'scenario': scen_name, 'transaction_order': order,
           'outcome': outcome,
           'requests': {n: reqs[n].brief() for n in names},
           'responses': {n: results[n].brief() if results[n] is not None
                         else None for n in names},
           'errors': result['errors']}
    if result['errors']:
        res.violation('%s|thread-error|%s' % (pid, scen_name),
                      '%s: %s' % (scen_name, result['errors']), wit)
        return outcome
    for n in names:
        if (reqs[n]['tag'] or {}).get('faulted') and \
                statuses[n] is not None:
            continue
        if statuses[n] is None or statuses[n] >= 500:
            esc = results[n].escaped if results[n] is not None else None
            res.violation(
                '%s|5xx|%s %s|%s' % (
                    pid, reqs[n]['method'],
                    reqs[n]['path'].split('/')[1] + (
                        '/' + reqs[n]['path'].split('/')[3]
                        if len(reqs[n]['path'].split('/')) > 3 else ''),
                    '%s|%s' % esc if esc else '?'),
                '%s [%s]: request %s answered %s' % (scen_name, order, n,
                                                     statuses[n]), wit)
    succ = [n for n in names if statuses[n] is not None and
            200 <= statuses[n] < 300]
    # --- (1) serial equivalence ---------------------------------------------
    fin_core = final.core(with_gen=False)
    fin_full = final.core(with_gen=True)
    matched = None
    gen_equal = False
    # prefer a serial order that agrees on the generation numbers as well
    for perm in (itertools.permutations(succ) if use_serial else ()):
        sts, dump = serial.run(perm)
        if all(200 <= s < 300 for s in sts) and \
                dump.core(with_gen=True) == fin_full:
            matched, gen_equal = perm, True
            break
    if not use_serial:
        _final_writer_clause(pid, scen_name, reqs, d0, result, succ, final,
                             res, wit)
    for perm in (itertools.permutations(succ)
                 if use_serial and matched is None else ()):
        sts, dump = serial.run(perm)
        if not all(200 <= s < 300 for s in sts):
            continue
        if dump.core(with_gen=False) == fin_core:
            matched = perm
            gen_equal = dump.core(with_gen=True) == final.core(with_gen=True)
            break
    if use_serial:
        res.count('serial_checks')
    if matched is None and use_serial:
        detail = []
        for perm in itertools.permutations(succ):
            sts, dump = serial.run(perm)
            detail.append({'order': ''.join(perm), 'statuses': sts,
                           'diff_vs_concurrent': dbdump.diff(
                               dump, final, with_gen=False)[:6]})
        kind = 'no-serial-order-in-which-all-succeed' if not any(
            all(200 <= s < 300 for s in x['statuses']) for x in detail) \
            else 'final-state-differs-from-every-serial-order'
        # mechanism: a success that carried a non-null generation for a
        # consumer absent at the start, enabled by the consumer record that
        # another - eventually failing - request had auto-created
        mech = None
        for n in succ:
            for c, g in ((reqs[n]['tag'] or {}).get('cgen') or {}).items():
                if g is not None and c not in d0.consumers and any(
                        m != n and statuses[m] is not None and
                        statuses[m] >= 400 and
                        c in ((reqs[m]['tag'] or {}).get('cgen') or {})
                        for m in names):
                    mech = 'success-on-consumer-auto-created-by-failed-' \
                           'request'
                elif g is not None and c not in d0.consumers and any(
                        m != n and ((reqs[m]['tag'] or {}).get('cgen') or {}
                                    ).get(c, 0) is None for m in names):
                    # (same root, the creator succeeds: it had nothing to
                    # write for the consumer it created)
                    mech = 'success-on-consumer-auto-created-by-request-' \
                           'in-flight'
        res.violation(
            '%s|%s|%s' % (pid, kind, mech or scen_name),
            '%s [%s] outcome %s: successes %s are not equivalent to any '
            'serial execution' % (scen_name, order, outcome, succ),
            dict(wit, serial=detail[:6]))
    elif use_serial and not gen_equal:
        # "the resulting providers ... and consumers equal that serial
        # execution's": the records agree except for generation numbers
        sts, dump = serial.run(matched)
        res.violation(
            '%s|generation-numbers-differ-from-every-serial-order|%s' % (
                pid, scen_name),
            '%s [%s] outcome %s: tables equal the serial order %s except '
            'for generations: %s' % (
                scen_name, order, outcome, ''.join(matched),
                dbdump.diff(dump, final, with_gen=True)[:4]), wit)
    # --- (2) guarded writes ----------------------------------------------------
    seq = [(None, None, d0)] + list(result['states'])
    changed_p, changed_c = set(), set()
    for n in succ:
        tag = reqs[n]['tag'] or {}
        pg = list(tag.get('pgens', []))
        if 'pgen' in tag:
            pg.append(tag['pgen'])
        for p, g in pg:
            res.count('provider_guard_checks')
            for i in range(1, len(seq)):
                if seq[i][1] != n:
                    continue
                before, after = seq[i - 1][2], seq[i][2]
                own = rp_facet(before, p) != rp_facet(after, p)
                # a request carrying generations for SEVERAL providers (a
                # reshape) is applied as a whole: each of them must still be
                # current where the request's changes are committed, also
                # the ones whose own data the request leaves as it is
                if own or (len(pg) > 1 and dbdump.diff(
                        before, after, with_gen=False)):
                    if own:
                        changed_p.add((n, p))
                    bg = before.providers[p]['generation'] \
                        if p in before.providers else None
                    if bg != g:
                        res.violation(
                            '%s|write-committed-on-other-provider-'
                            'generation|%s' % (pid, scen_name),
                            '%s [%s]: %s carried generation %r for %s but '
                            'its change was committed on generation %r'
                            % (scen_name, order, n, g, p, bg), wit)
                    break
        for c, cg in (tag.get('cgen') or {}).items():
            res.count('consumer_guard_checks')
            for i in range(1, len(seq)):
                if seq[i][1] != n:
                    continue
                before, after = seq[i - 1][2], seq[i][2]
                if consumer_facet(before, c) != consumer_facet(after, c):
                    # a write = some step of this request changed the
                    # consumer's allocations (an auto-created and removed
                    # record alone - PUT {} for a consumer that holds
                    # nothing - is no write)
                    if any(seq[k][1] == n and
                           consumer_facet(seq[k - 1][2], c)[1] !=
                           consumer_facet(seq[k][2], c)[1]
                           for k in range(1, len(seq))):
                        changed_c.add((n, c))
                    else:
                        break
                    bcur = before.consumers.get(c)
                    bg = bcur['generation'] if bcur else None
                    if bg != cg:
                        res.violation(
                            '%s|write-committed-on-other-consumer-'
                            'generation|%s' % (pid, scen_name),
                            '%s [%s]: %s carried consumer_generation %r for '
                            '%s but its write was committed when the '
                            'consumer %s' % (
                                scen_name, order, n, cg, c,
                                'had generation %r' % bg if bcur
                                else 'did not exist'), wit)
                    break
    # a success that carries a generation for an EXISTING consumer and names
    # allocations for it went through the compare-and-swap: one of its own
    # commits moved that consumer's generation on from the carried value
    for n in succ:
        tag = reqs[n]['tag'] or {}
        body = reqs[n]['body'] if isinstance(reqs[n]['body'], dict) else {}
        for c, cg in (tag.get('cgen') or {}).items():
            if cg is None or c not in d0.consumers:
                continue
            if reqs[n]['path'].startswith('/allocations/'):
                named = body.get('allocations')
            elif reqs[n]['path'].startswith('/reshaper'):
                named = ((body.get('allocations') or {}).get(c) or {}).get(
                    'allocations')
            else:
                named = (body.get(c) or {}).get('allocations')
            if not named and not any(cc == c for (cc, _, _) in d0.allocs):
                continue
            # (a clearing write - nothing named - for a consumer that holds
            # allocations removes them and the consumer: it is a write too)
            res.count('consumer_cas_checks')
            if not named:
                res.count('consumer_cas_checks_clearing')
            moved = any(
                seq[i][1] == n and c in seq[i - 1][2].consumers and
                seq[i - 1][2].consumers[c]['generation'] == cg and
                seq[i][2].consumers.get(c, {}).get('generation') != cg
                for i in range(1, len(seq)))
            if not moved:
                res.violation(
                    '%s|success-without-consumer-generation-compare-and-'
                    'swap|%s' % (pid, scen_name),
                    '%s [%s]: %s answered %s carrying consumer_generation '
                    '%r for %s, but none of its commits moved the consumer '
                    'on from that generation' % (
                        scen_name, order, n, statuses[n], cg, c), wit)
    # at most one success per carried (provider, generation) / (consumer,
    # generation) among the requests of one run
    seen_p, seen_c = {}, {}
    for n in succ:
        tag = reqs[n]['tag'] or {}
        pg = list(tag.get('pgens', []))
        if 'pgen' in tag:
            pg.append(tag['pgen'])
        # (a success that changed nothing of the entity - e.g. PUT of the
        # traits it already has - is vacuously "applied")
        for key in pg:
            if (n, key[0]) in changed_p:
                seen_p.setdefault(key, []).append(n)
        for c, cg in (tag.get('cgen') or {}).items():
            if (n, c) in changed_c:
                seen_c.setdefault((c, cg), []).append(n)
    for key, ns in seen_p.items():
        if len(ns) > 1:
            res.violation(
                '%s|two-successes-with-one-provider-generation|%s' % (
                    pid, scen_name),
                '%s [%s]: %s all succeeded carrying generation %r of %s'
                % (scen_name, order, ns, key[1], key[0]), wit)
    for key, ns in seen_c.items():
        if len(ns) > 1:
            res.violation(
                '%s|two-successes-with-one-consumer-generation|%s' % (
                    pid, scen_name),
                '%s [%s]: %s all succeeded carrying consumer_generation %r '
                'of %s' % (scen_name, order, ns, key[1], key[0]), wit)
    # --- (3) losers --------------------------------------------------------------
    for n in names:
        if statuses[n] == 409:
            j = results[n].json or {}
            try:
                e = j['errors'][0]
            except Exception:
                e = {}
            detail = str(e.get('detail', '')).lower()
            if ('generation' in detail or 'concurrent' in detail or
                    'changed while' in detail) and \
                    e.get('code') != 'placement.concurrent_update':
                res.violation(
                    '%s|generation-conflict-without-concurrent_update-code'
                    '|%s' % (pid, reqs[n]['path'].split('/')[1]),
                    '%s [%s]: %s answered 409 %r with code %r' % (
                        scen_name, order, n, detail[:120], e.get('code')),
                    wit)
    # --- (4) "rejected ... and changes nothing" ---------------------------------
    # the net effect of all the commits made by the thread of a request that
    # was answered 4xx is empty (what other requests committed in between is
    # not attributed to it)
    from pv import monitors as _mon
    for n in names:
        if statuses[n] is None or not 200 <= statuses[n] < 500:
            continue
        own = [(seq[i - 1][2], seq[i][2]) for i in range(1, len(seq))
               if seq[i][1] == n]
        if not own:
            continue
        _mon.c04_concurrent(reqs[n], results[n], own, wit, res, final,
                            pid=pid)
    return outcome


# ---------------------------------------------------------------------------
# shard runner shared by C05 / C06 / C07
# ---------------------------------------------------------------------------
def plan_scenarios(n_scen, tier, seed, per=4):
    shards = []
    for i in range(0, n_scen, per):
        shards.append({'seed': seed, 'first': i,
                       'count': min(per, n_scen - i), 'tier': tier,
                       'hashseed': (i // per) % 3})
    return shards


def run_scenarios(pid, scenarios, spec, res, use_serial=True):
    import random
    from pv import sched
    from pv.histrun import Service
    import oslo_db.api
    oslo_db.api.time.sleep = lambda s: None
    from pv.sqlwatch import SqlWatch
    svc = Service()
    sc = sched.Scheduler(svc.app)
    watch = SqlWatch(svc.app.engine)
    thorough = spec['tier'] == 'thorough'
    try:
        svc.fresh()
        world.build(svc.client)
        snap = svc.app.snapshot(svc.app.db_path + '.world')
        d0 = svc.dump()
        base_snap, base_d0 = snap, d0
        for idx in range(spec['first'], spec['first'] + spec['count']):
            name, builders = scenarios[idx][:2]
            snap, d0 = base_snap, base_d0
            if len(scenarios[idx]) > 2 and scenarios[idx][2] is not None:
                svc.app.restore(base_snap)
                scenarios[idx][2](svc.client)
                snap = svc.app.snapshot(svc.app.db_path + '.scen')
                d0 = svc.dump()
            faults = scenarios[idx][3] if len(scenarios[idx]) > 3 else None
            reqs = {n: b(d0) for n, b in builders.items()}
            for n in (faults or {}):
                if faults[n][0] == 'DLC':
                    # (a 5xx of the request hit by the fault is no defect)
                    reqs[n]['tag'] = dict(reqs[n]['tag'] or {}, faulted=True)
            serial = SerialCache(svc, snap, reqs)
            rng = random.Random('%s/%s/%s' % (pid, spec['seed'], name))

            def run(prefix):
                svc.app.restore(snap)
                fns = {n: (lambda r=r: svc.client.send(r, record=False))
                       for n, r in reqs.items()}
                if not faults:
                    return sc.run(fns, prefix)
                import sqlite3
                import threading
                fired = set()

                wrote = set()

                def hook(phase, ekind, text, params, conn, idx):
                    if phase != 'before' or ekind not in ('stmt', 'commit'):
                        return
                    w = sc.workers.get(threading.get_ident())
                    if w is None or w.name not in faults or \
                            w.name in fired:
                        return
                    kind, table = faults[w.name]
                    if kind == 'DLC':
                        # a deadlock reported at the COMMIT of the
                        # transaction that updated `table` (how a Galera
                        # certification failure shows): nothing of that
                        # transaction is stored
                        if ekind == 'stmt' and text.lstrip().upper(
                                ).startswith('UPDATE ' + table.upper()):
                            wrote.add(w.name)
                        elif ekind == 'commit' and w.name in wrote:
                            from oslo_db import exception as db_exc
                            fired.add(w.name)
                            res.count('faults_injected_in_schedules')
                            watch.inject_next = db_exc.DBDeadlock()
                        return
                    if ekind != 'stmt':
                        return
                    if text.lstrip().upper().startswith(
                            'INSERT INTO ' + table.upper()):
                        fired.add(w.name)
                        res.count('faults_injected_in_schedules')
                        watch.inject_next = sqlite3.IntegrityError(
                            'UNIQUE constraint failed: %s.uuid' % table)
                watch.start(hook)
                try:
                    return sc.run(fns, prefix)
                finally:
                    watch.stop()
            outcomes = set()
            n_sched = 0
            three = len(reqs) >= 3
            for prefix, result, fresh in sched.explore(
                    run, max_preemptions=3 if thorough and not three else 2,
                    max_schedules=(1500 if thorough else
                                   (160 if three else 220)),
                    rng=rng, random_extra=(60 if thorough else 6)):
                n_sched += 1
                res.count('schedules')
                if fresh:
                    res.count('distinct_transaction_orders')
                oc = judge(pid, name, reqs, d0, result, serial, res,
                           use_serial=use_serial)
                outcomes.add(oc)
                res.seen(name, result['order'], oc)
            res.count('scenarios')
            res.count('serial_replays', serial.replays)
            if len(outcomes) > 1:
                res.count('scenarios_with_both_outcome_orders')
            res.extra.setdefault('outcomes', {})
            for oc in outcomes:
                res.extra['outcomes']['%s => %s' % (name, oc)] = 1
            res.sample({'scenario': name, 'schedules': n_sched,
                        'outcome_vectors': sorted(outcomes),
                        'example_order': result['order']}, cap=4)
    finally:
        svc.close()


# ---------------------------------------------------------------------------
# state invariants of the sequential properties, evaluated on the
# committed-state sequences of concurrent runs (C01 C08 C09 C10 C12)
# ---------------------------------------------------------------------------
def move_rp(p, parent, version='1.39'):
    def b(d):
        return Req('PUT', '/resource_providers/%s' % p, version,
                   {'name': d.providers[p]['name'],
                    'parent_provider_uuid': parent})
    return b


def post_rp(u, name, parent):
    return lambda d: Req('POST', '/resource_providers', '1.39',
                         {'name': name, 'uuid': u,
                          'parent_provider_uuid': parent})


def scenarios_tree():
    N2 = '55555555-5555-4555-8555-555555555552'
    return [
        ('cross re-parent E<->S', {'A': move_rp(E, S), 'B': move_rp(S, E)}),
        ('re-parent C under E | E under C', {'A': move_rp(C, E),
                                             'B': move_rp(E, C)}),
        ('re-parent C to E | delete E', {'A': move_rp(C, E),
                                         'B': delete_rp(E)}),
        ('create child of E | delete E', {'A': post_rp(world.N, 'kid', E),
                                          'B': delete_rp(E)}),
        ('create child of E | move E under C', {
            'A': post_rp(world.N, 'kid', E), 'B': move_rp(E, C)}),
        ('un-parent C | re-parent R under C', {'A': move_rp(C, None),
                                               'B': move_rp(R, C)}),
        ('first parent 1.14 | re-parent 1.37', {
            'A': move_rp(E, R, '1.14'), 'B': move_rp(R, S)}),
        ('three movers', {'A': move_rp(E, C), 'B': move_rp(C, S),
                          'C': move_rp(S, E)}),
        ('move E under C | delete E', {'A': move_rp(E, C),
                                       'B': delete_rp(E)}),
        ('un-parent E (already a root) | delete E', {
            'A': move_rp(E, None), 'B': delete_rp(E)}),
        ('rename E (1.0, no parent key) | delete E', {
            'A': lambda d: Req('PUT', '/resource_providers/%s' % E, '1.0',
                               {'name': 'renamed'}),
            'B': delete_rp(E)}),
        ('two children, parent moves', {
            'A': post_rp(world.N, 'kid', C), 'B': post_rp(N2, 'kid2', C),
            'C': move_rp(C, E)}),
    ]


def scenarios_delete():
    """DELETE /allocations/{c} (carries no generation, so it is outside the
    serial-equivalence and guarded-write oracles of C05-C07) racing writers
    of the same consumer: for the STATE invariants only."""
    out = []
    out.append(('delete vs rewrite of the same consumer', {
        'A': delete_alloc(K1),
        'B': put_alloc(K1, {E: {'VCPU': 2}, S: {'DISK_GB': 5}}, 'cur')}))
    out.append(('delete vs move of the same consumer', {
        'A': delete_alloc(K2),
        'B': put_alloc(K2, {E: {'VCPU': 1}}, 'cur', 'proj-x', 'user-x',
                       'MIGRATION')}))
    out.append(('delete vs multi-consumer post', {
        'A': delete_alloc(K1),
        'B': post_allocs({K1: ({E: {'VCPU': 1}}, 'cur', 'pA'),
                          K3: ({E: {'VCPU': 1}}, 'null', 'pA')})}))
    out.append(('delete vs delete', {
        'A': delete_alloc(K1), 'B': delete_alloc(K1)}))
    out.append(('delete vs clearing put', {
        'A': delete_alloc(K2),
        'B': put_alloc(K2, {}, 'cur', 'proj-other', 'user-other',
                       'MIGRATION')}))
    out.append(('delete vs reshape moving the consumer', {
        'A': delete_alloc(K1), 'B': reshape_move(R, 'VCPU', C)}))
    # provider deletion racing writers of that provider
    out.append(('provider delete vs aggregates 1.1 (no generation)', {
        'A': delete_rp(E), 'B': put_aggs(E, 'cur', [A1, A2], '1.1')}))
    out.append(('provider delete vs aggregates', {
        'A': delete_rp(E), 'B': put_aggs(E, 'cur', [A1])}))
    out.append(('provider delete vs traits', {
        'A': delete_rp(E), 'B': put_traits(E, 'cur', ['CUSTOM_T1'])}))
    out.append(('provider delete vs inventories', {
        'A': delete_rp(E), 'B': put_invs(E, 'cur', INV3)}))
    out.append(('provider delete vs post inventory', {
        'A': delete_rp(E), 'B': post_inv(E, 'DISK_GB', 7)}))
    # deletion of a class / trait racing a write that starts to use it
    def _del(kind, n):
        return lambda d: Req('DELETE', '/%s/%s' % (kind, n), '1.39')
    out.append(('class delete vs inventories naming it', {
        'A': _del('resource_classes', 'CUSTOM_UNUSED'),
        'B': put_invs(E, 'cur', {'CUSTOM_UNUSED': {'total': 3},
                                 'VCPU': {'total': 4}})}))
    out.append(('class delete vs one more inventory of it', {
        'A': _del('resource_classes', 'CUSTOM_UNUSED'),
        'B': post_inv(E, 'CUSTOM_UNUSED', 3)}))
    out.append(('trait delete vs provider traits naming it', {
        'A': _del('traits', 'CUSTOM_UNUSED'),
        'B': put_traits(E, 'cur', ['CUSTOM_UNUSED', 'CUSTOM_T1'])}))
    # writers older than consumer generations (below 1.28) racing a creator
    # of the same consumer: the old-format request that loses the creation
    # race and is then refused (no room) changes nothing
    out.append(('creator 1.27 refused for room | creator 1.39 typed', {
        'A': put_alloc(K3, {E: {'VCPU': 400}}, 'null', 'pA',
                       version='1.27'),
        'B': put_alloc(K3, {R: {'VCPU': 1}}, 'null', 'pB',
                       ctype='MIGRATION')}))
    out.append(('creator 1.12 | creator 1.39 typed', {
        'A': put_alloc(K3, {E: {'VCPU': 1}}, 'null', 'pA', version='1.12'),
        'B': put_alloc(K3, {R: {'VCPU': 1}}, 'null', 'pB',
                       ctype='MIGRATION')}))
    out.append(('post 1.13 refused for room | creator 1.39 typed', {
        'A': post_allocs({K3: ({E: {'VCPU': 400}}, 'null', 'pA')}, '1.13'),
        'B': put_alloc(K3, {R: {'VCPU': 1}}, 'null', 'pB',
                       ctype='MIGRATION')}))
    out.append(('delete vs rewrite vs claim', {
        'A': delete_alloc(K1),
        'B': put_alloc(K1, {E: {'VCPU': 2}}, 'cur'),
        'C': put_alloc(K3, {E: {'VCPU': 2}}, 'null')}))
    return out


def invariant_scenarios(include_tree=False, sample_c05=40, seed=0):
    import random
    rng = random.Random('inv/%s' % seed)
    c05 = scenarios_c05()
    # writes that carry no generation (rename, re-parent) racing guarded
    # writes are always in; the rest of the C05 catalogue is sampled
    always = [x for x in c05 if x[0].startswith(('rename|', 'parent to C|'))]
    rest = [x for x in c05 if x not in always]
    out = scenarios_delete() + scenarios_c07() + scenarios_c06() + always + \
        rng.sample(rest, min(sample_c05, len(rest)))
    if include_tree:
        out = scenarios_tree() + out
    return out


def run_invariants(pid, scenarios, spec, res, per_state=None, per_step=None,
                   at_end=None, max_schedules=30, per_request=None):
    """Run scenarios under the scheduler; call
       per_state(dump, wit) for every committed state,
       per_step(step, res) with a monitors.Step for the last committing step
       of every request (before/after = the states around that step),
       at_end(d0, final, reqs, results, wit) once per schedule."""
    import random
    from pv import sched, monitors
    from pv.histrun import Service
    svc = Service()
    sc = sched.Scheduler(svc.app)
    thorough = spec.get('tier') == 'thorough'
    try:
        svc.fresh()
        world.build(svc.client)
        base_snap = svc.app.snapshot(svc.app.db_path + '.world')
        base_d0 = svc.dump()
        for idx in range(spec['first'], spec['first'] + spec['count']):
            name, builders = scenarios[idx][:2]
            snap, d0 = base_snap, base_d0
            if len(scenarios[idx]) > 2 and scenarios[idx][2] is not None:
                svc.app.restore(base_snap)
                scenarios[idx][2](svc.client)
                snap = svc.app.snapshot(svc.app.db_path + '.scen')
                d0 = svc.dump()
            reqs = {n: b(d0) for n, b in builders.items()}
            rng = random.Random('%s/%s/%s' % (pid, spec['seed'], name))

            def run(prefix):
                svc.app.restore(snap)
                def do(r):
                    if r['method'] == 'RESTART':
                        # a worker process starting up meanwhile: its
                        # start-up synchronisation on the same database
                        from pv.client import Resp
                        try:
                            svc.app.restart()
                            return Resp(204, {}, b'')
                        except Exception as exc:      # noqa
                            return Resp(500, {}, repr(exc).encode(),
                                        escaped=(type(exc).__name__,
                                                 'start-up'))
                    return svc.client.send(r, record=False)
                fns = {n: (lambda r=r: do(r)) for n, r in reqs.items()}
                return sc.run(fns, prefix)
            for prefix, result, fresh in sched.explore(
                    run, max_preemptions=2,
                    max_schedules=max_schedules * (8 if thorough else 1),
                    rng=rng, random_extra=10 if thorough else 2):
                res.count('concurrent_schedules')
                results = result['results']
                order = result['order']
                wit = {'scenario': name, 'transaction_order': order,
                       'requests': {n: reqs[n].brief() for n in reqs},
                       'responses': {n: results[n].brief()
                                     if results[n] is not None else None
                                     for n in reqs}}
                # no fault is injected here: a 5xx answer is a defect
                # whatever invariant the check is about
                for n in sorted(reqs):
                    r_ = results[n]
                    if r_ is None or r_.status >= 500:
                        esc = r_.escaped if r_ is not None else None
                        res.violation(
                            '%s|5xx|concurrent|%s|%s' % (
                                pid, name, '%s|%s' % esc if esc else '?'),
                            '%s [%s]: request %s answered %s' % (
                                name, order, n,
                                r_.status if r_ is not None else None), wit)
                seq = [(None, None, d0)] + list(result['states'])
                if per_state is not None:
                    for i in range(1, len(seq)):
                        res.count('concurrent_states_checked')
                        per_state(seq[i][2], dict(wit, after_step=i,
                                                  by=seq[i][1]))
                if per_step is not None:
                    last = {}
                    for i in range(1, len(seq)):
                        last[seq[i][1]] = i
                    for n, i in last.items():
                        if results[n] is None:
                            continue
                        st = monitors.Step(reqs[n], results[n],
                                           seq[i - 1][2], seq[i][2],
                                           hist=lambda w=wit: w)
                        res.count('concurrent_steps_judged')
                        per_step(st, res)
                if per_request is not None:
                    # per_request(req, resp, own, wit): own = the (before,
                    # after) dumps around EVERY committing step of that
                    # request's thread, in order
                    for n in reqs:
                        if results[n] is None:
                            continue
                        own = [(seq[i - 1][2], seq[i][2])
                               for i in range(1, len(seq)) if seq[i][1] == n]
                        per_request(reqs[n], results[n], own, wit, res,
                                    seq[-1][2])
                if at_end is not None:
                    final = seq[-1][2]
                    at_end(d0, final, reqs, results, wit)
                res.seen('conc', name, order[:24])
            res.count('concurrent_scenarios')
    finally:
        svc.close()


# ---------------------------------------------------------------------------
# random request tuples on random reachable states (C05/C06/C07, mostly for
# the thorough tier): "from every reachable start state in a bounded scope"
# ---------------------------------------------------------------------------
def auto_tag(req):
    """derive the carried provider / consumer generations from a request"""
    from pv.routes import classify
    name, params, _ = classify(req['path'])
    b = req['body']
    tag = dict(req['tag'] or {})
    m = req['method']
    try:
        if m == 'PUT' and name in ('invs', 'inv', 'rp_traits') or (
                m == 'PUT' and name == 'rp_aggs' and isinstance(b, dict)):
            tag['pgen'] = (params['uuid'], b['resource_provider_generation'])
        elif name == 'reshaper':
            tag['pgens'] = [(p, x['resource_provider_generation'])
                            for p, x in b['inventories'].items()]
            tag['cgen'] = {c: e.get('consumer_generation')
                           for c, e in b['allocations'].items()}
        elif name == 'alloc' and m == 'PUT' and 'consumer_generation' in b:
            tag['cgen'] = {params['consumer']: b['consumer_generation']}
        elif name == 'allocs' and m == 'POST':
            tag['cgen'] = {c: e['consumer_generation'] for c, e in b.items()
                           if 'consumer_generation' in e}
    except (KeyError, TypeError, AttributeError):
        pass
    req['tag'] = tag
    return req


RANDOM_WEIGHTS = {
    'post_rp': 1, 'put_rp': 2, 'delete_rp': 2, 'put_invs': 8, 'post_inv': 2,
    'put_inv': 5, 'delete_inv': 3, 'delete_invs': 1, 'put_trait': 0,
    'delete_trait': 1, 'put_rp_traits': 5, 'delete_rp_traits': 1,
    'put_rp_aggs': 4, 'post_rc': 0, 'put_rc': 0, 'delete_rc': 1,
    'put_alloc': 14, 'post_allocs': 8, 'delete_alloc': 0, 'reshaper': 5,
    'read': 0}


def run_random(pid, spec, res, use_serial=True):
    """spec: first/count = range of random cases; every case = a random
    history building a state + a tuple of 2-3 write requests valid for it."""
    import random
    from pv import sched
    from pv.gen.history import HistoryGen, Names
    from pv.histrun import Service
    svc = Service()
    sc = sched.Scheduler(svc.app)
    thorough = spec.get('tier') == 'thorough'
    try:
        for case in range(spec['first'], spec['first'] + spec['count']):
            rng = random.Random('rand/%s/%s/%s' % (pid, spec['seed'], case))
            svc.fresh()
            names = Names(rng, n_rp=5, n_cons=3)
            build = HistoryGen(rng, names, p_bad=0.05,
                               versions=['1.39', '1.37', '1.38'])
            d = svc.dump()
            for _ in range(rng.randint(15, 40)):
                svc.client.send(build.next(d))
                d = svc.dump()
            snap = svc.app.snapshot(svc.app.db_path + '.rand')
            d0 = d
            tgen = HistoryGen(rng, names, RANDOM_WEIGHTS, p_bad=0.1,
                              versions=['1.39'])
            n = rng.choice([2, 2, 2, 3])
            reqs = {}
            for k in 'ABC'[:n]:
                r = tgen.next(d0)
                tries = 0
                while r['method'] == 'GET' and tries < 5:
                    r = tgen.next(d0)
                    tries += 1
                reqs[k] = auto_tag(r)
            name = ' | '.join('%s %s' % (r['method'],
                                         r['tag'].get('op', '?'))
                              for r in reqs.values())
            serial = SerialCache(svc, snap, reqs)

            def run(prefix):
                svc.app.restore(snap)
                fns = {k: (lambda r=r: svc.client.send(r, record=False))
                       for k, r in reqs.items()}
                return sc.run(fns, prefix)
            outcomes = set()
            for prefix, result, fresh in sched.explore(
                    run, max_preemptions=2,
                    max_schedules=120 if thorough else 40, rng=rng,
                    random_extra=4):
                res.count('schedules')
                res.count('random_tuple_schedules')
                oc = judge(pid, 'random: ' + name, reqs, d0, result, serial,
                           res, use_serial=use_serial)
                outcomes.add(oc)
                res.seen('random', name, result['order'][:20], oc)
            res.count('random_tuples')
            if len(outcomes) > 1:
                res.count('scenarios_with_both_outcome_orders')
            res.sample({'random_tuple': name,
                        'requests': {k: r.brief() for k, r in reqs.items()},
                        'outcome_vectors': sorted(outcomes)}, cap=5)
    finally:
        svc.close()


def _setup_missing_standard_trait(client):
    import sqlite3
    con = sqlite3.connect(client.app.db_path)
    con.execute("DELETE FROM traits WHERE name = 'HW_CPU_X86_AVX2'")
    con.commit()
    con.close()
    r = client.call('PUT', '/traits/CUSTOM_ZZ')
    assert r.status == 201, r.status


def _setup_missing_standard_class(client):
    import sqlite3
    con = sqlite3.connect(client.app.db_path)
    con.execute("DELETE FROM resource_classes WHERE name = 'FPGA'")
    con.commit()
    con.close()
    r = client.call('PUT', '/resource_classes/CUSTOM_ZZ')
    assert r.status == 201, r.status


def scenarios_names():
    """racing creations / deletions of custom classes and traits (C19)"""
    def put_rc(n, v='1.39'):
        return lambda d: Req('PUT', '/resource_classes/%s' % n, v)

    def post_rc(n):
        return lambda d: Req('POST', '/resource_classes', '1.39',
                             {'name': n})

    def del_rc(n):
        return lambda d: Req('DELETE', '/resource_classes/%s' % n, '1.39')

    def put_trait(n):
        return lambda d: Req('PUT', '/traits/%s' % n, '1.39')

    def del_trait(n):
        return lambda d: Req('DELETE', '/traits/%s' % n, '1.39')
    return [
        ('put rc X | put rc Y', {'A': put_rc('CUSTOM_X'),
                                 'B': put_rc('CUSTOM_Y')}),
        ('put rc X | post rc Y', {'A': put_rc('CUSTOM_X'),
                                  'B': post_rc('CUSTOM_Y')}),
        ('post rc X | post rc Y | put rc Z', {
            'A': post_rc('CUSTOM_X'), 'B': post_rc('CUSTOM_Y'),
            'C': put_rc('CUSTOM_Z')}),
        ('put rc X | put rc X', {'A': put_rc('CUSTOM_X'),
                                 'B': put_rc('CUSTOM_X')}),
        ('put rc X | post rc X', {'A': put_rc('CUSTOM_X'),
                                  'B': post_rc('CUSTOM_X')}),
        ('delete highest rc | put rc X', {'A': del_rc('CUSTOM_UNUSED'),
                                          'B': put_rc('CUSTOM_X')}),
        ('delete rc | re-create same rc', {'A': del_rc('CUSTOM_UNUSED'),
                                           'B': put_rc('CUSTOM_UNUSED')}),
        ('rename rc 1.2 | put rc X', {
            'A': lambda d: Req('PUT', '/resource_classes/CUSTOM_UNUSED',
                               '1.2', {'name': 'CUSTOM_X'}),
            'B': put_rc('CUSTOM_X', '1.7')}),
        ('rename rc 1.6 | delete that rc', {
            'A': lambda d: Req('PUT', '/resource_classes/CUSTOM_UNUSED',
                               '1.6', {'name': 'CUSTOM_RENAMED'}),
            'B': del_rc('CUSTOM_UNUSED')}),
        ('delete rc | delete same rc | put rc X (takes the freed id)', {
            'A': del_rc('CUSTOM_UNUSED'), 'B': del_rc('CUSTOM_UNUSED'),
            'C': put_rc('CUSTOM_X')}),
        ('delete trait | delete same trait | put trait X', {
            'A': del_trait('CUSTOM_UNUSED'), 'B': del_trait('CUSTOM_UNUSED'),
            'C': put_trait('CUSTOM_TX')}),
        ('delete trait | delete same trait | re-create it | associate it', {
            'A': del_trait('CUSTOM_UNUSED'), 'B': del_trait('CUSTOM_UNUSED'),
            'C': put_trait('CUSTOM_UNUSED'),
            'D': put_traits(E, 'cur', ['CUSTOM_UNUSED'])}),
        # a custom trait (the newest row) deleted twice while another worker
        # starts up and synchronises a standard trait that is missing
        ('restart: delete trait | delete same trait | start-up sync', {
            'A': del_trait('CUSTOM_ZZ'), 'B': del_trait('CUSTOM_ZZ'),
            'C': lambda d: Req('RESTART', '/', '1.39')},
         _setup_missing_standard_trait),
        ('restart: delete rc | delete same rc | start-up sync', {
            'A': del_rc('CUSTOM_ZZ'), 'B': del_rc('CUSTOM_ZZ'),
            'C': lambda d: Req('RESTART', '/', '1.39')},
         _setup_missing_standard_class),
        ('put trait X | put trait X', {'A': put_trait('CUSTOM_TX'),
                                       'B': put_trait('CUSTOM_TX')}),
        ('put trait X | put trait Y', {'A': put_trait('CUSTOM_TX'),
                                       'B': put_trait('CUSTOM_TY')}),
        ('delete trait | associate it', {
            'A': del_trait('CUSTOM_UNUSED'),
            'B': put_traits(E, 'cur', ['CUSTOM_UNUSED'])}),
        ('delete rc | inventory of it', {
            'A': del_rc('CUSTOM_UNUSED'),
            'B': post_inv(E, 'CUSTOM_UNUSED', 3)}),
    ]
