"""O2: canonical dump of all placement tables through an independent sqlite3
connection (never through placement's object layer)."""
import sqlite3

TABLES = ['resource_classes', 'resource_providers', 'inventories',
          'allocations', 'resource_provider_aggregates',
          'placement_aggregates', 'traits', 'resource_provider_traits',
          'projects', 'users', 'consumers', 'consumer_types']
DROP = ('created_at', 'updated_at')


class Dump(object):
    """Raw rows + a view keyed by natural keys.

    Attributes (natural-key view):
      providers   {uuid: {'name','generation','parent','root','id'}}
      inventories {(rp_uuid, class): {total,reserved,min_unit,max_unit,
                                      step_size,allocation_ratio}}
      allocs      {(consumer_uuid, rp_uuid, class): used}  (rows summed)
      alloc_rows  number of allocation rows per key (duplicates show as >1)
      rp_traits   set((rp_uuid, trait))
      rp_aggs     set((rp_uuid, agg_uuid))
      consumers   {uuid: {'generation','project','user','type'}}
      classes     {name: id}; traits {name: id}; aggs {uuid: id}
      projects/users/ctypes  set(names)
      dangling    list of (kind, detail) for references that do not resolve
    """

    def __init__(self, raw):
        self.raw = raw
        d = self.dangling = []
        rp_by_id = {r['id']: r for r in raw['resource_providers']}
        rc_by_id = {r['id']: r['name'] for r in raw['resource_classes']}
        tr_by_id = {r['id']: r['name'] for r in raw['traits']}
        ag_by_id = {r['id']: r['uuid'] for r in raw['placement_aggregates']}
        pj_by_id = {r['id']: r['external_id'] for r in raw['projects']}
        us_by_id = {r['id']: r['external_id'] for r in raw['users']}
        ct_by_id = {r['id']: r['name'] for r in raw['consumer_types']}
        self.classes = {r['name']: r['id'] for r in raw['resource_classes']}
        self.traits = {r['name']: r['id'] for r in raw['traits']}
        self.aggs = {r['uuid']: r['id'] for r in raw['placement_aggregates']}
        self.projects = set(pj_by_id.values())
        self.users = set(us_by_id.values())
        self.ctypes = set(ct_by_id.values())

        def rpu(i, kind, ctx):
            r = rp_by_id.get(i)
            if r is None:
                d.append((kind, 'provider id %r missing (%s)' % (i, ctx)))
                return '?rp%r' % i
            return r['uuid']

        def rcn(i, kind, ctx):
            n = rc_by_id.get(i)
            if n is None:
                d.append((kind, 'class id %r missing (%s)' % (i, ctx)))
                return '?rc%r' % i
            return n

        self.providers = {}
        for r in raw['resource_providers']:
            parent = None
            if r['parent_provider_id'] is not None:
                parent = rpu(r['parent_provider_id'], 'provider-parent',
                             r['uuid'])
            root = None
            if r['root_provider_id'] is not None:
                root = rpu(r['root_provider_id'], 'provider-root', r['uuid'])
            self.providers[r['uuid']] = {
                'name': r['name'], 'generation': r['generation'],
                'parent': parent, 'root': root, 'id': r['id']}
        self.inventories = {}
        self.inv_rows = {}
        for r in raw['inventories']:
            k = (rpu(r['resource_provider_id'], 'inventory-provider',
                     'inv %s' % r['id']),
                 rcn(r['resource_class_id'], 'inventory-class',
                     'inv %s' % r['id']))
            self.inv_rows[k] = self.inv_rows.get(k, 0) + 1
            self.inventories[k] = {
                f: r[f] for f in ('total', 'reserved', 'min_unit',
                                  'max_unit', 'step_size',
                                  'allocation_ratio')}
        self.consumers = {}
        for r in raw['consumers']:
            pj = pj_by_id.get(r['project_id'])
            us = us_by_id.get(r['user_id'])
            if pj is None:
                d.append(('consumer-project', r['uuid']))
            if us is None:
                d.append(('consumer-user', r['uuid']))
            ct = None
            if r['consumer_type_id'] is not None:
                ct = ct_by_id.get(r['consumer_type_id'])
                if ct is None:
                    d.append(('consumer-type', r['uuid']))
                    ct = '?ct%r' % r['consumer_type_id']
            self.consumers[r['uuid']] = {
                'generation': r['generation'], 'project': pj, 'user': us,
                'type': ct, 'id': r['id']}
        self.allocs = {}
        self.alloc_rows = {}
        for r in raw['allocations']:
            k = (r['consumer_id'],
                 rpu(r['resource_provider_id'], 'allocation-provider',
                     'alloc %s' % r['id']),
                 rcn(r['resource_class_id'], 'allocation-class',
                     'alloc %s' % r['id']))
            self.allocs[k] = self.allocs.get(k, 0) + r['used']
            self.alloc_rows[k] = self.alloc_rows.get(k, 0) + 1
        self.rp_traits = set()
        for r in raw['resource_provider_traits']:
            t = tr_by_id.get(r['trait_id'])
            if t is None:
                d.append(('rptrait-trait', 'trait id %r' % r['trait_id']))
                t = '?t%r' % r['trait_id']
            self.rp_traits.add((rpu(r['resource_provider_id'],
                                    'rptrait-provider', t), t))
        self.rp_aggs = set()
        for r in raw['resource_provider_aggregates']:
            a = ag_by_id.get(r['aggregate_id'])
            if a is None:
                d.append(('rpagg-aggregate', 'agg id %r' % r['aggregate_id']))
                a = '?a%r' % r['aggregate_id']
            self.rp_aggs.add((rpu(r['resource_provider_id'],
                                  'rpagg-provider', a), a))

    # ----- derived ------------------------------------------------------
    def usage(self):
        """{(rp_uuid, class): sum of used}"""
        u = {}
        for (c, rp, rc), used in self.allocs.items():
            u[(rp, rc)] = u.get((rp, rc), 0) + used
        return u

    def children(self):
        ch = {}
        for u, p in self.providers.items():
            if p['parent'] is not None:
                ch.setdefault(p['parent'], []).append(u)
        return ch

    def top_of(self, uuid):
        """Follow parent links; None on cycle / missing parent."""
        seen = set()
        cur = uuid
        while True:
            if cur in seen or cur not in self.providers:
                return None
            seen.add(cur)
            par = self.providers[cur]['parent']
            if par is None:
                return cur
            cur = par

    def core(self, with_gen=True, with_aux=False):
        """Normalised, comparable value (dict of plain types)."""
        prov = {}
        for u, p in self.providers.items():
            q = {'name': p['name'], 'parent': p['parent'], 'root': p['root']}
            if with_gen:
                q['generation'] = p['generation']
            prov[u] = q
        cons = {}
        for u, c in self.consumers.items():
            q = {'project': c['project'], 'user': c['user'],
                 'type': c['type']}
            if with_gen:
                q['generation'] = c['generation']
            cons[u] = q
        out = {
            'providers': prov,
            'inventories': {'%s|%s' % k: v
                            for k, v in self.inventories.items()},
            'allocs': {'%s|%s|%s' % k: v for k, v in self.allocs.items()},
            'rp_traits': sorted('%s|%s' % k for k in self.rp_traits),
            'rp_aggs': sorted('%s|%s' % k for k in self.rp_aggs),
            'consumers': cons,
            'classes': sorted(n for n in self.classes),
            'traits': sorted(n for n in self.traits),
        }
        if with_aux:
            out['projects'] = sorted(self.projects)
            out['users'] = sorted(self.users)
            out['ctypes'] = sorted(self.ctypes)
            out['aggs'] = sorted(self.aggs)
        return out


def take(con_or_path):
    own = False
    if isinstance(con_or_path, str):
        con = sqlite3.connect(con_or_path)
        con.row_factory = sqlite3.Row
        own = True
    else:
        con = con_or_path
    raw = {}
    try:
        for t in TABLES:
            rows = []
            for r in con.execute('SELECT * FROM %s' % t):
                rows.append({k: r[k] for k in r.keys() if k not in DROP})
            raw[t] = rows
    finally:
        if own:
            con.close()
    return Dump(raw)


def diff(a, b, **kw):
    """Human-readable list of differences between two core() values."""
    ca, cb = a.core(**kw), b.core(**kw)
    out = []
    for sect in ca:
        va, vb = ca[sect], cb[sect]
        if va == vb:
            continue
        if isinstance(va, dict):
            for k in sorted(set(va) | set(vb)):
                if va.get(k) != vb.get(k):
                    out.append('%s[%s]: %r -> %r' % (sect, k, va.get(k),
                                                     vb.get(k)))
        else:
            sa, sb = set(va), set(vb)
            for k in sorted(sa - sb):
                out.append('%s: -%s' % (sect, k))
            for k in sorted(sb - sa):
                out.append('%s: +%s' % (sect, k))
    return out
