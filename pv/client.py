"""O1: HTTP-boundary client around the real WSGI application.  Every call is
logged (call event before, return event after) with a logical step number."""
import json

import webob


class Resp(object):
    __slots__ = ('status', 'headers', 'body', '_json', 'escaped',
                 'http_raised')

    def __init__(self, status, headers, body, escaped=None):
        self.http_raised = False
        self.status = status
        self.headers = headers
        self.body = body
        self._json = Ellipsis
        self.escaped = escaped

    @property
    def json(self):
        if self._json is Ellipsis:
            try:
                self._json = json.loads(self.body.decode('utf-8'))
            except Exception:
                self._json = None
        return self._json

    def brief(self):
        j = self.json
        if isinstance(j, dict) and 'errors' in j:
            try:
                e = j['errors'][0]
                return {'status': self.status, 'code': e.get('code'),
                        'detail': str(e.get('detail'))[:200]}
            except Exception:
                pass
        return {'status': self.status}


class Req(dict):
    """method, path (incl. query), version (str or None), body (json value)
    or raw (bytes), headers, token, roles, tag (free generator metadata)."""

    def __init__(self, method, path, version='1.39', body=None, raw=None,
                 headers=None, token='admin', roles=None, tag=None,
                 ctype='application/json', accept='application/json'):
        super().__init__(method=method, path=path, version=version,
                         body=body, raw=raw, headers=headers or {},
                         token=token, roles=roles, tag=tag or {},
                         ctype=ctype, accept=accept)

    def brief(self):
        d = {'method': self['method'], 'path': self['path'],
             'version': self['version']}
        if self['body'] is not None:
            d['body'] = self['body']
        if self['raw'] is not None:
            d['raw'] = repr(self['raw'][:300])
        if self['headers']:
            d['headers'] = self['headers']
        if self['token'] != 'admin' or self['roles']:
            d['token'] = self['token']
            d['roles'] = self['roles']
        return d


class Client(object):
    def __init__(self, app, log=None):
        self.app = app
        self.step = 0
        self.log = log if log is not None else []
        self.keep = 400

    def send(self, req, record=True):
        from pv import app as appmod
        self.step += 1
        r = webob.Request.blank(req['path'], method=req['method'])
        if req['token'] is not None:
            r.headers['x-auth-token'] = req['token']
        if req['roles'] is not None:
            r.headers['x-roles'] = req['roles']
        if req['version'] is not None:
            r.headers['openstack-api-version'] = 'placement ' + req['version']
        if req['accept'] is not None:
            r.headers['accept'] = req['accept']
        if req['raw'] is not None:
            r.body = req['raw']
            if req['ctype'] is not None:
                r.content_type = req['ctype']
        elif req['body'] is not None:
            r.body = json.dumps(req['body']).encode('utf-8')
            if req['ctype'] is not None:
                r.content_type = req['ctype']
        for k, v in req['headers'].items():
            if v is None:
                r.headers.pop(k, None)
            else:
                r.headers[k] = v
        entry = None
        if record:
            entry = {'step': self.step, 'req': req.brief(), 'resp': None}
            self.log.append(entry)
            if len(self.log) > self.keep:
                del self.log[:-self.keep]
        n_esc = appmod.ESCAPED['n']
        n_raised = appmod.HTTP_RAISED['n']
        resp = r.get_response(self.app.wsgi)
        esc = None
        if appmod.ESCAPED['n'] != n_esc:
            esc = appmod.ESCAPED['last']
        out = Resp(resp.status_int, {k.lower(): v for k, v in
                                     resp.headers.items()}, resp.body, esc)
        out.http_raised = appmod.HTTP_RAISED['n'] != n_raised
        if entry is not None:
            entry['resp'] = out.brief()
            if esc:
                entry['resp']['escaped'] = list(esc)
        return out

    # convenience -------------------------------------------------------
    def call(self, method, path, body=None, version='1.39', **kw):
        return self.send(Req(method, path, version=version, body=body, **kw))

    def history(self, last=60):
        return self.log[-last:]
