"""Build the real placement WSGI application in-process (DESIGN.md 4.1).

Nothing in openstack/placement is modified: the only accommodation is the
registration of ``[oslo_policy] enforce_scope`` on *our own* ConfigOpts object
(the option was removed from oslo.policy 6 while deploy() still reads it).
"""
import logging
import os
import shutil
import sqlite3
import tempfile

from pv import use_repo

use_repo()

from oslo_config import cfg  # noqa: E402
from oslo_policy import opts as policy_opts  # noqa: E402

import placement.conf  # noqa: E402
from placement import db_api  # noqa: E402
from placement import deploy  # noqa: E402
from placement import fault_wrap  # noqa: E402
from placement import policy  # noqa: E402
from placement.db.sqlalchemy import migration  # noqa: E402
from placement.objects import resource_class as rc_obj  # noqa: E402
from placement.objects import trait as trait_obj  # noqa: E402

logging.disable(logging.CRITICAL)


def _memoize_schema_check():
    """jsonschema.validate() re-validates the *schema* against its
    meta-schema on every request (40 % of the request time).  The verdict for
    one schema object cannot change, so successful checks are remembered per
    schema object (kept alive, so ids are never reused).  Instance validation
    is untouched.  PV_FAST_SCHEMA=0 disables this."""
    if os.environ.get('PV_FAST_SCHEMA', '1') != '1':
        return
    import jsonschema.validators as jv
    cls = jv.Draft202012Validator
    if getattr(cls, '_pv_memo', None) is not None:
        return
    orig = cls.check_schema.__func__
    memo = {}

    def check_schema(klass, schema, *a, **kw):
        if klass is cls and not a and not kw:
            hit = memo.get(id(schema))
            if hit is not None and hit is schema:
                return
            orig(klass, schema)
            if len(memo) < 2000:
                memo[id(schema)] = schema
            return
        return orig(klass, schema, *a, **kw)

    cls.check_schema = classmethod(check_schema)
    cls._pv_memo = memo


_memoize_schema_check()

ESCAPED = {'n': 0, 'last': None}  # (exc type, innermost placement frame)


def _innermost_placement_frame(tb):
    best = None
    while tb is not None:
        fn = tb.tb_frame.f_code.co_filename
        if '/placement/' in fn and '/tests/' not in fn:
            best = (fn.split('/placement/', 1)[1], tb.tb_frame.f_code.co_name)
        tb = tb.tb_next
    return best


class _EscapeRecorder(object):
    """Sits directly inside FaultWrapper; records and re-raises."""

    def __init__(self, application):
        self.application = application

    def __call__(self, environ, start_response):
        try:
            return self.application(environ, start_response)
        except Exception as exc:
            fr = _innermost_placement_frame(exc.__traceback__)
            ESCAPED['n'] += 1
            ESCAPED['last'] = (type(exc).__name__,
                               '%s:%s' % fr if fr else '?')
            raise


HTTP_RAISED = {'n': 0, 'last': None}   # HTTPError raised *out of* the handler


def _recording_handler_class():
    import webob.exc
    from placement import handler as phandler

    class RecordingPlacementHandler(phandler.PlacementHandler):
        """The real PlacementHandler; notes when a webob HTTPError leaves it
        as an exception (instead of a returned response)."""

        def __call__(self, environ, start_response):
            try:
                return super().__call__(environ, start_response)
            except webob.exc.HTTPError as exc:
                HTTP_RAISED['n'] += 1
                HTTP_RAISED['last'] = exc.code
                raise
    return RecordingPlacementHandler


class RecordingFaultWrapper(fault_wrap.FaultWrapper):
    """O5: the real FaultWrapper around a recorder of what reached it."""

    def __init__(self, application):
        super().__init__(_EscapeRecorder(application))


def scratch_dir():
    base = '/dev/shm' if os.path.isdir('/dev/shm') else tempfile.gettempdir()
    return tempfile.mkdtemp(prefix='pv-', dir=base)


class App(object):
    """A placement service instance bound to one sqlite database file."""

    def __init__(self, db_path=None, conf_overrides=None, policy_rules=None,
                 record_faults=True, auth_strategy='noauth2',
                 config_text=None):
        self.own_dir = None
        if db_path is None:
            self.own_dir = scratch_dir()
            db_path = os.path.join(self.own_dir, 'p.db')
        self.db_path = db_path
        self.config_text = config_text
        self.conf = self._make_conf(db_path, conf_overrides, auth_strategy)
        self._reset_globals()
        db_api.configure(self.conf)
        self.engine = db_api.get_placement_engine()
        migration.create_schema(self.engine)
        if policy_rules is not None:
            self._write_policy(policy_rules)
        if record_faults:
            from placement import handler as phandler
            fault_wrap_orig = fault_wrap.FaultWrapper
            handler_orig = phandler.PlacementHandler
            fault_wrap.FaultWrapper = RecordingFaultWrapper
            phandler.PlacementHandler = _recording_handler_class()
            try:
                self.wsgi = deploy.loadapp(self.conf)
            finally:
                fault_wrap.FaultWrapper = fault_wrap_orig
                phandler.PlacementHandler = handler_orig
        else:
            self.wsgi = deploy.loadapp(self.conf)

    # -- configuration ----------------------------------------------------
    def _make_conf(self, db_path, overrides, auth_strategy):
        conf = cfg.ConfigOpts()
        placement.conf.register_opts(conf)
        policy_opts.set_defaults(conf)
        try:
            conf.register_opt(cfg.BoolOpt('enforce_scope', default=True),
                              group='oslo_policy')
        except cfg.DuplicateOptError:
            pass
        conf.set_default('connection', 'sqlite:///' + db_path,
                         group='placement_database')
        conf.set_default('auth_strategy', auth_strategy, group='api')
        files = []
        if self.config_text:
            path = db_path + '.conf'
            with open(path, 'w') as f:
                f.write(self.config_text)
            files = [path]
        conf([], default_config_files=files)
        for (group, name), value in (overrides or {}).items():
            conf.set_override(name, value, group=group)
        return conf

    def _write_policy(self, rules):
        import json
        d = self.own_dir or os.path.dirname(self.db_path)
        path = os.path.join(d, 'policy.yaml')
        with open(path, 'w') as f:
            json.dump(rules, f)  # JSON is YAML
        self.conf.set_override('policy_file', path, group='oslo_policy')

    @staticmethod
    def _reset_globals():
        policy.reset()
        trait_obj._TRAITS_SYNCED = False
        rc_obj._RESOURCE_CLASSES_SYNCED = False
        if db_api.configure.called:
            raise RuntimeError('one App per process (restore a snapshot '
                               'instead of building a second one)')

    # -- restart ----------------------------------------------------------
    def restart(self, new_process=True):
        """Emulate a process restart: re-run the start-up synchronisation.
        new_process=False: the application is loaded again in the SAME
        process (what mod_wsgi / uwsgi do after a failed load): the
        module-level "synchronised" flags keep whatever the code left."""
        if new_process:
            trait_obj._TRAITS_SYNCED = False
            rc_obj._RESOURCE_CLASSES_SYNCED = False
        deploy.update_database(self.conf)

    # -- snapshots (file copy; NullPool => no connection is open between
    #    requests) -----------------------------------------------------------
    def snapshot(self, path=None):
        if path is None:
            path = self.db_path + '.snap%d' % id(object())
        shutil.copyfile(self.db_path, path)
        return path

    def restore(self, path):
        for ext in ('-journal', '-wal', '-shm'):
            try:
                os.unlink(self.db_path + ext)
            except FileNotFoundError:
                pass
        shutil.copyfile(path, self.db_path)

    def raw(self):
        """Independent sqlite3 connection for dumps (O2)."""
        con = sqlite3.connect(self.db_path)
        con.row_factory = sqlite3.Row
        return con

    def close(self):
        try:
            self.engine.dispose()
        except Exception:
            pass
        if self.own_dir:
            shutil.rmtree(self.own_dir, ignore_errors=True)
