"""Grammar-based mutation of valid requests (DESIGN.md C15).

A mutated request is a dict {method, path, query(list of pairs, raw strings
allowed), headers, body(bytes or None)} ready for a raw WSGI call, plus the
list of mutation kinds applied."""
import copy
import json

from urllib.parse import quote, urlsplit, parse_qsl

BIG = [0, -1, 1, 2 ** 31 - 1, 2 ** 31, 2 ** 32, 2 ** 63 - 1, 2 ** 63,
       2 ** 64, 10 ** 20, -2 ** 63, 1.5, 1e308, 0.0, -0.0]
RAWNUM = ['1e400', '-1e400', 'NaN', 'Infinity', '-Infinity', '1e-400',
          '01', '1.', '0x10', '1' * 40]
STRS = ['', ' ', 'a' * 256, 'A' * 1024, 'CUSTOM_X\n', 'VCPU\n', '\x00',
        'a\x00b', '‮', '퟿', 'ΑΒΓ', '😀', 'null', '0', '-',
        '../../etc', '%s%s', "'; DROP TABLE allocations; --",
        '11111111-1111-4111-8111-11111111111', 'not-a-uuid',
        '11111111-1111-4111-8111-111111111111\n', '{', '[]',
        'CUSTOM_' + 'Z' * 300, 'in:', '!', 'in:,', ',', ':', 'VCPU:',
        ':1', 'VCPU:x', 'VCPU:1,', 'VCPU:-1', 'VCPU:0', 'VCPU:1.5',
        'VCPU:1e3', '\t', '\r\n', '\x7f', '\x1b[31m']
# JSON-only: escape sequences that are valid JSON text but not unicode text
# (lone surrogates); json.dumps writes them as \\udXXX escapes
JSTRS = ['\ud800', 'ok\udfff', '\udc00\ud800', 'CUSTOM_\udbff']
OTHER = [None, True, False, [], {}, [[]], {'a': {}}, [1, 2], ['x'],
         {'resources': {}}, [None]]
QBYTES = ['%ff', '%fe%ff', '%zz', '%', '%0', '%00', '%0A', '%c3%28', '%e2%82',
          '%2F', '%25', '+', '%20', '\xff', '\xe9']


def paths(doc, prefix=()):
    """all (path, value) pairs of a JSON document."""
    out = [(prefix, doc)]
    if isinstance(doc, dict):
        for k, v in doc.items():
            out.extend(paths(v, prefix + (k,)))
    elif isinstance(doc, list):
        for i, v in enumerate(doc):
            out.extend(paths(v, prefix + (i,)))
    return out


def get_parent(doc, path):
    cur = doc
    for k in path[:-1]:
        cur = cur[k]
    return cur


class RawJSON(object):
    """placeholder serialised verbatim (for 1e400, NaN, ...)"""
    def __init__(self, text):
        self.text = text


def dumps(doc):
    marks = {}

    def default(o):
        if isinstance(o, RawJSON):
            key = '@@RAW%d@@' % len(marks)
            marks[key] = o.text
            return key
        raise TypeError
    s = json.dumps(doc, default=default)
    for k, v in marks.items():
        s = s.replace('"%s"' % k, v)
    return s


class Mutator(object):
    def __init__(self, rng):
        self.rng = rng

    # -- body ---------------------------------------------------------------
    def mutate_json(self, doc):
        r = self.rng
        doc = copy.deepcopy(doc)
        ps = paths(doc)
        kind = r.choice(['drop', 'rename', 'extra', 'type', 'bignum',
                         'rawnum', 'string', 'dupval', 'nest', 'swap',
                         'keystr', 'empty'])
        if kind == 'empty' or len(ps) == 1:
            return r.choice([{}, [], None, 0, '', {'a': 1}]), 'body-empty'
        path, val = r.choice(ps[1:])
        parent = get_parent(doc, path)
        k = path[-1]
        if kind == 'drop':
            del parent[k]
        elif kind == 'rename' and isinstance(parent, dict):
            parent[r.choice([str(k) + 'x', str(k).upper(), '', ' ' + str(k),
                             str(k) + '\n'])] = parent.pop(k)
        elif kind == 'extra' and isinstance(val, dict):
            val[r.choice(['extra', 'generation', 'mappings', '',
                          'consumer_generation', 'x' * 300])] = \
                r.choice(OTHER + BIG[:4] + STRS[:3])
        elif kind == 'type':
            parent[k] = r.choice(OTHER + ['str', 7, 7.5])
        elif kind == 'bignum':
            parent[k] = r.choice(BIG)
        elif kind == 'rawnum':
            parent[k] = RawJSON(r.choice(RAWNUM))
        elif kind == 'string':
            parent[k] = r.choice(STRS + JSTRS)
        elif kind == 'dupval' and isinstance(parent, list):
            parent.append(copy.deepcopy(val))
        elif kind == 'nest':
            parent[k] = {'x': val} if r.random() < 0.5 else [val]
        elif kind == 'swap':
            if isinstance(val, dict):
                parent[k] = list(val.values())
            elif isinstance(val, list):
                parent[k] = {str(i): v for i, v in enumerate(val)}
            else:
                parent[k] = [val]
        elif kind == 'keystr' and isinstance(parent, dict):
            parent[r.choice(STRS + JSTRS)] = parent.pop(k)
        else:
            parent[k] = r.choice(OTHER)
            kind = 'type'
        return doc, 'body-' + kind

    def mutate_raw_body(self, raw):
        r = self.rng
        kind = r.choice(['truncate', 'badutf8', 'empty', 'notjson', 'bom',
                         'trailing', 'dupkey', 'deep', 'huge'])
        if kind == 'truncate':
            return raw[:r.randrange(max(1, len(raw)))], 'raw-truncate'
        if kind == 'badutf8':
            i = r.randrange(len(raw) + 1)
            return raw[:i] + r.choice([b'\xff', b'\xc3\x28', b'\xed\xa0\x80',
                                       b'\x00']) + raw[i:], 'raw-badutf8'
        if kind == 'empty':
            return b'', 'raw-empty'
        if kind == 'notjson':
            return r.choice([b'<xml/>', b'name=x', b'nul', b'{,}', b"{'a':1}",
                             b'\x00\x01', b'[1,]', b'"', b'{"a":}']), \
                'raw-notjson'
        if kind == 'bom':
            return b'\xef\xbb\xbf' + raw, 'raw-bom'
        if kind == 'trailing':
            return raw + r.choice([b'x', b'{}', b'\n\n', b'\x00']), \
                'raw-trailing'
        if kind == 'dupkey':
            if raw.startswith(b'{') and len(raw) > 2:
                return b'{"allocations": 1, ' + raw[1:], 'raw-dupkey'
            return raw + raw, 'raw-dupkey'
        if kind == 'deep':
            n = r.choice([50, 500, 5000])
            return b'[' * n + b']' * n, 'raw-deep'
        return b'{"name": "' + b'a' * 200000 + b'"}', 'raw-huge'

    # -- query ------------------------------------------------------------
    def mutate_query(self, q):
        """q: list of (key, value) already percent-encoded text pairs."""
        r = self.rng
        q = list(q)
        kind = r.choice(['repeat', 'conflict', 'emptyval', 'badpct',
                         'bignum', 'unknown', 'dropkey', 'string', 'suffix',
                         'nokey', 'rawamp', 'many'])
        if not q and kind not in ('unknown', 'rawamp', 'nokey'):
            kind = 'unknown'
        if kind == 'repeat':
            q.insert(r.randrange(len(q) + 1), r.choice(q))
        elif kind == 'many':
            # one filter repeated beyond the number of tables a database
            # joins in one query (MySQL 61, SQLite 64)
            pref = [x for x in q if x[0].startswith(('member_of', 'required'))]
            if not pref:
                # (a resources<N> group repeated 130 times is a legal request
                # whose candidates take hours to combine: not this property)
                q.insert(r.randrange(len(q) + 1), r.choice(q))
                return q, 'query-repeat'
            k, v = r.choice(pref)
            n = r.choice([61, 64, 65, 130])
            # (one value per repetition: n joined 'in:' lists that each match
            # twice make 2^n rows - a request that is never answered, which no
            # finite run decides)
            one = (v or '').replace('in:', '').replace('in%3A', '')
            one = one.split(',')[0].split('%2C')[0]
            if r.random() < 0.3 and one:
                q[q.index((k, v))] = (k, ','.join([one] * n))
            else:
                q.extend([(k, one)] * n)
        elif kind == 'conflict':
            k, v = r.choice(q)
            q.insert(r.randrange(len(q) + 1),
                     (k, quote(r.choice(STRS), safe='')))
        elif kind == 'emptyval':
            i = r.randrange(len(q))
            q[i] = (q[i][0], '')
        elif kind == 'badpct':
            i = r.randrange(len(q))
            if r.random() < 0.7:
                q[i] = (q[i][0], (q[i][1] or '') + r.choice(QBYTES))
            else:
                q[i] = (q[i][0] + r.choice(QBYTES), q[i][1])
        elif kind == 'bignum':
            i = r.randrange(len(q))
            v = q[i][1] or ''
            big = r.choice(['99999999999999999999', '9223372036854775808',
                            '2147483648', '-1', '0', '1e9', '٣',
                            # beyond what int() converts (4300 digits)
                            '9' * 4400, '1_0', '+2', '%202', '0x10',
                            # digits for str.isdigit() that int() refuses
                            '%C2%B2', '%E2%91%A0', '1%C2%B3', '%E2%92%8B',
                            '%E0%B9%93', '%EF%BC%95'])
            if ':' in v or '%3A' in v:
                head = v.split('%3A')[0].split(':')[0]
                q[i] = (q[i][0], '%s:%s' % (head, big))
            else:
                q[i] = (q[i][0], big)
        elif kind == 'unknown':
            q.append((r.choice(['foo', 'resources0', 'required99',
                                'member_of_', 'in_tree-', 'limit',
                                'group_policy', 'same_subtree',
                                'root_required', 'consumer_type', 'name',
                                'uuid', 'associated', 'project_id',
                                'user_id', 'resources_' + 'x' * 70]),
                      quote(r.choice(STRS + ['1', 'isolate', 'none',
                                             '9' * 4400, '5\n', '10',
                                             'all\n', 'allx']),
                            safe='')))
        elif kind == 'dropkey':
            del q[r.randrange(len(q))]
        elif kind == 'string':
            i = r.randrange(len(q))
            q[i] = (q[i][0], quote(r.choice(STRS), safe=''))
        elif kind == 'suffix':
            i = r.randrange(len(q))
            q[i] = (q[i][0] + r.choice(['1', '_a', '0', '-', '_' * 65,
                                        '%0A', '01', '_é']), q[i][1])
        elif kind == 'nokey':
            q.append(('', r.choice(['', 'x'])))
        else:
            q.append((r.choice(['&', '=', '&&', ';', '=&=']), None))
        return q, 'query-' + kind

    # -- path -----------------------------------------------------------------
    def mutate_path(self, path):
        r = self.rng
        segs = path.split('/')
        kind = r.choice(['seg', 'trail', 'enc', 'long', 'dot', 'case',
                         'extra'])
        if kind == 'seg' and len(segs) > 2:
            i = r.randrange(2, len(segs))
            segs[i] = quote(r.choice(STRS), safe='')
        elif kind == 'trail':
            segs.append('')
        elif kind == 'enc' and len(segs) > 1:
            i = r.randrange(1, len(segs))
            segs[i] = segs[i] + r.choice(QBYTES)
        elif kind == 'long':
            segs.append('x' * 5000)
        elif kind == 'dot':
            segs.insert(1, r.choice(['.', '..', '%2e%2e']))
        elif kind == 'case':
            segs = [s.upper() for s in segs]
        else:
            segs.append(r.choice(['inventories', 'traits', 'nope',
                                  'allocations']))
        return '/'.join(segs), 'path-' + kind

    # -- headers / method -----------------------------------------------------
    def mutate_headers(self, h, has_body):
        r = self.rng
        h = dict(h)
        kind = r.choice(['ctype', 'accept', 'version', 'clen', 'method',
                         'reqid'])
        method = None
        if kind == 'ctype':
            h['Content-Type'] = r.choice([
                None, '', 'text/plain', 'application/xml',
                'application/json; charset=latin-1',
                'application/json; charset=nope', 'APPLICATION/JSON',
                'application/json;', 'multipart/form-data', '*/*', 'x'])
        elif kind == 'accept':
            h['Accept'] = r.choice([
                None, '', '*/*', 'text/html', 'application/xml',
                'application/json;q=0', 'application/*', 'garbage',
                'text/plain, application/json', 'application/json;q=x',
                ',', 'a/b;q=1;q=2'])
        elif kind == 'version':
            h['OpenStack-API-Version'] = r.choice([
                None, '', 'placement', 'placement ', 'placement 1',
                'placement 1.x', 'placement 9.9', 'placement 1.40',
                'placement 0.9', 'placement -1.0', 'placement 1.39.1',
                'compute 2.1', 'placement 1.10, placement 1.39',
                'placement latest', 'placement LATEST', 'placement  1.39',
                'placement 1.00000039', 'placement 1.39\n', 'nova 1.1',
                'placement 1.' + '9' * 30])
        elif kind == 'clen':
            # (a length larger than what is sent is a client that hangs up
            # mid-body: not a request the service can answer at all)
            h['Content-Length'] = r.choice(['abc', '-1', '', '0', '3',
                                            '1.5', ' 5'])
        elif kind == 'method':
            method = r.choice(['PATCH', 'OPTIONS', 'HEAD', 'TRACE', 'get',
                               'PROPFIND', 'DELETE', 'PUT', 'POST', 'GET'])
        else:
            h['X-Openstack-Request-Id'] = r.choice(['req-x', 'x' * 500,
                                                    'é', ''])
        return h, method, 'header-' + kind


UUID_RX = __import__('re').compile(
    r'[0-9a-fA-F]{8}-[0-9a-fA-F]{4}-[0-9a-fA-F]{4}-[0-9a-fA-F]{4}-'
    r'[0-9a-fA-F]{12}')


def respell_uuid(rng, text):
    """another spelling of one uuid inside text (most are VALID input for
    uuid-format fields: upper case, no dashes, braces, urn prefix)"""
    ms = list(UUID_RX.finditer(text))
    if not ms:
        return None
    m = rng.choice(ms)
    u = m.group(0)
    v = rng.choice([u.upper(), u.replace('-', ''), '{%s}' % u,
                    'urn:uuid:' + u, u.replace('-', '').upper(),
                    u[:-1] + u[-1].upper(), ' ' + u, u + ' '])
    return text[:m.start()] + v + text[m.end():]


def split_req(req):
    """pv.client.Req -> (method, path, query pairs (encoded), headers, body
    document or None)."""
    parts = urlsplit(req['path'])
    q = [(quote(k, safe=''), quote(v, safe=':,!'))
         for k, v in parse_qsl(parts.query, keep_blank_values=True)]
    return req['method'], parts.path, q, req['body']
