"""History generator (DESIGN.md 4.2): weighted random API requests over a small
pool of names so that collisions, stale generations, in-use refusals and
re-creations happen constantly.  The generator may look at the dump to choose
*interesting* arguments; it is never an oracle."""
import copy
import math
import uuid as uuidlib

from pv.client import Req

MAXINT = 0x7FFFFFFF

STD_CLASSES = ['VCPU', 'MEMORY_MB', 'DISK_GB']
CUSTOM_CLASSES = ['CUSTOM_A', 'CUSTOM_B']
STD_TRAITS = ['MISC_SHARES_VIA_AGGREGATE', 'HW_CPU_X86_AVX']
CUSTOM_TRAITS = ['CUSTOM_T1', 'CUSTOM_T2', 'CUSTOM_T3']
# (0.0 is a valid ratio - an inventory drained by its operator: capacity 0)
RATIOS = [0.5, 1.0, 1.0, 1.0, 1.1, 1.5, 2.0, 16.0, 0.29, 0.7, 0.0, 1.0]


def mkuuid(rng):
    return str(uuidlib.UUID(int=rng.getrandbits(128), version=4))


class Names(object):
    def __init__(self, rng, n_rp=8, n_cons=4):
        self.rps = [mkuuid(rng) for _ in range(n_rp)]
        self.rp_names = ['rp%d' % i for i in range(n_rp)]
        self.consumers = [mkuuid(rng) for _ in range(n_cons)]
        # consumers whose uuid is spelled in upper case (valid input); they
        # are only ever written through POST /allocations and POST /reshaper
        # (PUT canonicalises the spelling in its path) so that one consumer
        # has one spelling throughout a history
        self.upper_consumers = [mkuuid(rng).upper() for _ in range(2)]
        self.aggs = [mkuuid(rng) for _ in range(3)]
        # ('both' is a project id AND a user id: the two are separate
        # name spaces)
        self.projects = ['pj0', 'pj1', 'pj2', 'both']
        self.users = ['us0', 'us1', 'us2', 'both']
        self.ctypes = ['INSTANCE', 'MIGRATION', 'CT_X']
        self.classes = STD_CLASSES + CUSTOM_CLASSES
        self.traits = STD_TRAITS + CUSTOM_TRAITS
        self.unknown_uuid = mkuuid(rng)


ALLOC_BANDS = ['1.0', '1.8', '1.12', '1.28', '1.34', '1.38']


def band_of(version):
    if version is None:
        return '1.0'
    mj, mn = version.split('.') if version != 'latest' else (1, 39)
    mn = int(mn)
    best = '1.0'
    for b in ALLOC_BANDS:
        if mn >= int(b.split('.')[1]):
            best = b
    return best


def vnum(version):
    if version is None:
        return 0
    if version == 'latest':
        return 39
    return int(version.split('.')[1])


DEFAULT_WEIGHTS = {
    'post_rp': 6, 'put_rp': 4, 'delete_rp': 2,
    'put_invs': 8, 'post_inv': 3, 'put_inv': 4, 'delete_inv': 2,
    'delete_invs': 1,
    'put_trait': 2, 'delete_trait': 1, 'put_rp_traits': 4,
    'delete_rp_traits': 1,
    'put_rp_aggs': 4,
    'post_rc': 2, 'put_rc': 2, 'delete_rc': 1,
    'put_alloc': 14, 'post_allocs': 7, 'delete_alloc': 3, 'reshaper': 5,
    'read': 0,
}


class HistoryGen(object):
    def __init__(self, rng, names=None, weights=None, p_bad=0.25,
                 versions=None, p_accept=0.0):
        self.rng = rng
        self.p_accept = p_accept
        self.n = names or Names(rng)
        w = dict(DEFAULT_WEIGHTS)
        w.update(weights or {})
        self.ops = [k for k, v in w.items() if v > 0]
        self.wts = [w[k] for k in self.ops]
        self.p_bad = p_bad
        self.fixed_versions = versions

    # ------------------------------------------------------------------
    def next(self, d):
        op = self.rng.choices(self.ops, self.wts)[0]
        req = getattr(self, 'g_' + op)(d)
        if req is None:
            req = self.g_post_rp(d)
        req['tag'].setdefault('op', op)
        if self.p_accept and self.rng.random() < self.p_accept:
            # a client that does not ask for JSON: whatever the service makes
            # of the header, a write is either applied and answered with
            # success or refused and not applied
            req['accept'] = self.rng.choice([
                'text/plain', 'application/xml', 'text/html',
                'text/html,application/xml;q=0.9', 'application/json;q=0',
                'image/*', 'application/jsonx'])
        return req

    def bad(self, p=None):
        return self.rng.random() < (self.p_bad if p is None else p)

    def pick(self, seq):
        seq = list(seq)
        return self.rng.choice(seq) if seq else None

    def ver(self, choices):
        if self.fixed_versions:
            c = [v for v in choices if v in self.fixed_versions]
            if c:
                return self.rng.choice(c)
        return self.rng.choice(choices)

    def existing_rps(self, d):
        return sorted(d.providers)

    def rp_or_unknown(self, d, p_unknown=0.05):
        ex = self.existing_rps(d)
        if not ex or self.rng.random() < p_unknown:
            cand = [u for u in self.n.rps if u not in d.providers]
            return self.pick(cand) or self.n.unknown_uuid
        return self.pick(ex)

    def gen_for(self, d, rp, p_stale=None):
        g = d.providers[rp]['generation'] if rp in d.providers else 0
        if self.bad(p_stale if p_stale is not None else 0.12):
            return g + self.rng.choice([-1, 1, -2, 5])
        return g

    # -- providers ------------------------------------------------------
    def g_post_rp(self, d):
        r = self.rng
        free = [u for u in self.n.rps if u not in d.providers]
        if free and not self.bad(0.08):
            u = r.choice(free)
        else:
            u = r.choice(self.n.rps)
        used_names = {p['name'] for p in d.providers.values()}
        name = self.n.rp_names[self.n.rps.index(u)]
        if name in used_names:
            name = name + '-%d' % r.randrange(1000)
        if self.bad(0.06) and used_names:
            name = r.choice(sorted(used_names))
        v = self.ver(['1.0', '1.13', '1.14', '1.19', '1.20', '1.36',
                      '1.39', '1.39'])
        body = {'name': name, 'uuid': u}
        mode = 'root'
        if vnum(v) >= 14 and d.providers and r.random() < 0.55:
            if self.bad(0.1):
                body['parent_provider_uuid'] = r.choice(
                    [u, self.n.unknown_uuid])
                mode = 'bad-parent'
            else:
                body['parent_provider_uuid'] = r.choice(
                    self.existing_rps(d))
                mode = 'child'
        elif vnum(v) < 14 and self.bad(0.05):
            body['parent_provider_uuid'] = None
            mode = 'parent-key-old-version'
        elif vnum(v) >= 14 and r.random() < 0.25:
            body['parent_provider_uuid'] = None    # explicit "no parent"
            mode = 'root-explicit-null'
        self.respell_parent(body)
        return Req('POST', '/resource_providers', v, body,
                   tag={'mode': mode, 'rp': u})

    def g_put_rp(self, d):
        r = self.rng
        if not d.providers:
            return None
        u = self.rp_or_unknown(d, 0.04)
        v = self.ver(['1.0', '1.13', '1.14', '1.36', '1.37', '1.39',
                      '1.39'])
        cur = d.providers.get(u)
        name = cur['name'] if cur and r.random() < 0.6 else \
            'ren%d' % r.randrange(10000)
        if self.bad(0.06):
            name = r.choice(sorted(p['name']
                                   for p in d.providers.values()))
        body = {'name': name}
        mode = 'rename'
        if vnum(v) >= 14 and r.random() < 0.8:
            choice = r.random()
            ex = self.existing_rps(d)
            if choice < 0.15:
                body['parent_provider_uuid'] = None
                mode = 'unparent'
            elif choice < 0.25:
                body['parent_provider_uuid'] = r.choice(
                    [u, self.n.unknown_uuid])
                mode = 'self-or-unknown-parent'
            elif choice < 0.40 and cur:
                # a descendant (loop attempt)
                ch = d.children()
                desc, stack, seen = [], list(ch.get(u, [])), set()
                while stack:
                    x = stack.pop()
                    if x in seen:
                        continue    # a cycle (only if the service is broken)
                    seen.add(x)
                    desc.append(x)
                    stack.extend(ch.get(x, []))
                if desc:
                    body['parent_provider_uuid'] = r.choice(desc)
                    mode = 'loop'
                else:
                    body['parent_provider_uuid'] = r.choice(ex)
                    mode = 'parent'
            elif choice < 0.5 and cur:
                body['parent_provider_uuid'] = cur['parent']
                mode = 'same-parent'
            else:
                body['parent_provider_uuid'] = r.choice(ex)
                mode = 'parent'
        self.respell_parent(body)
        return Req('PUT', '/resource_providers/%s' % u, v, body,
                   tag={'mode': mode, 'rp': u})

    def respell_parent(self, body):
        """sometimes another VALID spelling of the parent's uuid (upper
        case, no dashes): the schema's uuid format admits them"""
        p = body.get('parent_provider_uuid')
        if p and self.rng.random() < 0.15:
            body['parent_provider_uuid'] = self.rng.choice(
                [p.upper(), p.replace('-', ''), p.replace('-', '').upper()])

    def g_delete_rp(self, d):
        if not d.providers:
            return None
        u = self.rp_or_unknown(d, 0.05)
        return Req('DELETE', '/resource_providers/%s' % u,
                   self.ver(['1.0', '1.39']), tag={'rp': u})

    # -- inventories ----------------------------------------------------
    def inv_fields(self, explicit_all=False):
        r = self.rng
        total = r.choice([1, 2, 3, 4, 8, 16, 100])
        if r.random() < 0.1:
            # (kbit/s of a NIC, MB of a big host: capacities where a relative
            # tolerance or float rounding is worth more than one unit)
            total = r.choice([3000000, 10 ** 7, 2 ** 31 - 1, 2 ** 24 + 1])
        f = {'total': total}
        if explicit_all or r.random() < 0.5:
            f['reserved'] = r.choice([0, 0, 1, max(0, total - 1), total])
        if explicit_all or r.random() < 0.5:
            f['min_unit'] = r.choice([1, 1, 2, 3])
        if explicit_all or r.random() < 0.5:
            f['max_unit'] = r.choice([1, 2, 4, total, total, MAXINT])
        if explicit_all or r.random() < 0.5:
            f['step_size'] = r.choice([1, 1, 2, 3])
        if explicit_all or r.random() < 0.6:
            f['allocation_ratio'] = r.choice(RATIOS)
        if self.bad(0.04):
            f['reserved'] = total + r.choice([1, 5])
        return f

    def class_pick(self, d, p_unknown=0.06):
        r = self.rng
        if r.random() < p_unknown:
            return r.choice(['CUSTOM_NOPE', 'NOPE'])
        return r.choice(self.n.classes)

    def g_put_invs(self, d):
        r = self.rng
        if not d.providers:
            return None
        u = self.rp_or_unknown(d, 0.03)
        k = r.choice([0, 1, 1, 2, 2, 3])
        classes = set()
        for _ in range(k):
            classes.add(self.class_pick(d))
        # bias: keep the classes that are in use so the write is accepted
        if r.random() < 0.6:
            for (rp, rc), used in d.usage().items():
                if rp == u and used:
                    classes.add(rc)
        invs = {c: self.inv_fields() for c in sorted(classes)}
        body = {'resource_provider_generation': self.gen_for(d, u),
                'inventories': invs}
        return Req('PUT', '/resource_providers/%s/inventories' % u,
                   self.ver(['1.0', '1.25', '1.26', '1.39']), body,
                   tag={'rp': u})

    def g_post_inv(self, d):
        if not d.providers:
            return None
        u = self.rp_or_unknown(d, 0.03)
        f = self.inv_fields()
        f['resource_class'] = self.class_pick(d)
        return Req('POST', '/resource_providers/%s/inventories' % u,
                   self.ver(['1.0', '1.26', '1.39']), f, tag={'rp': u})

    def g_put_inv(self, d):
        r = self.rng
        if not d.providers:
            return None
        u = self.rp_or_unknown(d, 0.03)
        have = [rc for (rp, rc) in d.inventories if rp == u]
        rc = r.choice(have) if have and r.random() < 0.85 \
            else self.class_pick(d)
        f = self.inv_fields()
        f['resource_provider_generation'] = self.gen_for(d, u)
        return Req('PUT', '/resource_providers/%s/inventories/%s' % (u, rc),
                   self.ver(['1.0', '1.25', '1.26', '1.39']), f,
                   tag={'rp': u, 'rc': rc})

    def g_delete_inv(self, d):
        r = self.rng
        if not d.providers:
            return None
        u = self.rp_or_unknown(d, 0.03)
        have = [rc for (rp, rc) in d.inventories if rp == u]
        rc = r.choice(have) if have and r.random() < 0.85 \
            else self.class_pick(d)
        return Req('DELETE', '/resource_providers/%s/inventories/%s' % (u, rc),
                   self.ver(['1.0', '1.39']), tag={'rp': u, 'rc': rc})

    def g_delete_invs(self, d):
        if not d.providers:
            return None
        u = self.rp_or_unknown(d, 0.03)
        return Req('DELETE', '/resource_providers/%s/inventories' % u,
                   self.ver(['1.4', '1.5', '1.39']), tag={'rp': u})

    # -- traits -----------------------------------------------------------
    def g_put_trait(self, d):
        r = self.rng
        name = r.choice(CUSTOM_TRAITS + ['CUSTOM_T4'])
        if self.bad(0.15):
            name = r.choice(['HW_CPU_X86_AVX', 'custom_lower', 'CUSTOM_',
                             'NOTCUSTOM_X', 'CUSTOM_' + 'X' * 249,
                             'CUSTOM_' + 'X' * 248, 'CUSTOM_A-B'])
        return Req('PUT', '/traits/%s' % name, self.ver(['1.6', '1.39']),
                   tag={'trait': name})

    def g_delete_trait(self, d):
        r = self.rng
        name = r.choice(CUSTOM_TRAITS + ['CUSTOM_T4'])
        if self.bad(0.2):
            name = r.choice(STD_TRAITS + ['CUSTOM_NOPE', 'COMPUTE_NODE'])
        return Req('DELETE', '/traits/%s' % name, self.ver(['1.6', '1.39']),
                   tag={'trait': name})

    def g_put_rp_traits(self, d):
        r = self.rng
        if not d.providers:
            return None
        u = self.rp_or_unknown(d, 0.03)
        known = [t for t in self.n.traits if t in d.traits]
        k = r.choice([0, 1, 1, 2, 3])
        ts = set(r.choice(known) for _ in range(k)) if known else set()
        if self.bad(0.08):
            ts.add(r.choice(['CUSTOM_NOPE', 'CUSTOM_T4', 'NOPE']))
        body = {'resource_provider_generation': self.gen_for(d, u),
                'traits': sorted(ts)}
        return Req('PUT', '/resource_providers/%s/traits' % u,
                   self.ver(['1.6', '1.39']), body, tag={'rp': u})

    def g_delete_rp_traits(self, d):
        if not d.providers:
            return None
        u = self.rp_or_unknown(d, 0.03)
        return Req('DELETE', '/resource_providers/%s/traits' % u,
                   self.ver(['1.6', '1.39']), tag={'rp': u})

    # -- aggregates ---------------------------------------------------------
    def g_put_rp_aggs(self, d):
        r = self.rng
        if not d.providers:
            return None
        u = self.rp_or_unknown(d, 0.03)
        k = r.choice([0, 1, 1, 2, 3])
        aggs = sorted(set(r.choice(self.n.aggs) for _ in range(k)))
        v = self.ver(['1.1', '1.18', '1.19', '1.39'])
        if vnum(v) >= 19:
            body = {'aggregates': aggs,
                    'resource_provider_generation': self.gen_for(d, u)}
        else:
            body = aggs
        return Req('PUT', '/resource_providers/%s/aggregates' % u, v, body,
                   tag={'rp': u})

    # -- classes --------------------------------------------------------
    def g_post_rc(self, d):
        r = self.rng
        name = r.choice(CUSTOM_CLASSES + ['CUSTOM_C'])
        if self.bad(0.15):
            name = r.choice(['VCPU', 'custom_x', 'CUSTOM_', 'XCUSTOM_A',
                             'CUSTOM_' + 'Y' * 249, 'CUSTOM_' + 'Y' * 248])
        return Req('POST', '/resource_classes', self.ver(['1.2', '1.39']),
                   {'name': name}, tag={'rc': name})

    def g_put_rc(self, d):
        r = self.rng
        v = self.ver(['1.2', '1.6', '1.7', '1.39'])
        name = r.choice(CUSTOM_CLASSES + ['CUSTOM_C'])
        if self.bad(0.12):
            name = r.choice(['VCPU', 'CUSTOM_NOPE', 'custom_x'])
        if vnum(v) >= 7:
            return Req('PUT', '/resource_classes/%s' % name, v,
                       tag={'rc': name})
        new = r.choice(CUSTOM_CLASSES + ['CUSTOM_C', 'CUSTOM_D'])
        if self.bad(0.12):
            new = r.choice(['VCPU', 'custom_y', 'DISK_GB'])
        return Req('PUT', '/resource_classes/%s' % name, v, {'name': new},
                   tag={'rc': name, 'new': new})

    def g_delete_rc(self, d):
        r = self.rng
        name = r.choice(CUSTOM_CLASSES + ['CUSTOM_C', 'CUSTOM_D'])
        if self.bad(0.15):
            name = r.choice(['VCPU', 'CUSTOM_NOPE', 'MEMORY_MB'])
        return Req('DELETE', '/resource_classes/%s' % name,
                   self.ver(['1.2', '1.39']), tag={'rc': name})

    # -- allocations --------------------------------------------------------
    def amount_for(self, d, rp, rc, consumers_replaced, want_valid):
        """Adversarial amount relative to the stored inventory."""
        r = self.rng
        inv = d.inventories.get((rp, rc))
        if inv is None:
            return r.choice([1, 1, 2, 5])
        others = 0
        for (c, p, k), used in d.allocs.items():
            if p == rp and k == rc and c not in consumers_replaced:
                others += used
        cap = (inv['total'] - inv['reserved']) * inv['allocation_ratio']
        free = int(math.floor(cap + 1e-9)) - others
        mn, mx, st = inv['min_unit'], inv['max_unit'], inv['step_size']
        if want_valid:
            hi = min(mx, free)
            lo = ((mn + st - 1) // st) * st
            cands = [a for a in {lo, lo + st, (hi // st) * st,
                                 ((hi // st) * st) - st, lo + 2 * st}
                     if lo <= a <= hi and a >= 1]
            if cands:
                return r.choice(sorted(cands))
            return max(1, lo)
        cands = [1, mn - 1, mn, mx, mx + 1, st + 1, st - 1, free, free + 1,
                 int(cap), int(cap) + 1, 2 ** 31 - 1, 2 ** 63 - 1, 2 ** 31]
        cands = [a for a in cands if a >= 1]
        return r.choice(cands)

    def alloc_dict(self, d, consumer, replaced, p_valid=0.7):
        """{rp: {'resources': {rc: amount}}} for one consumer."""
        r = self.rng
        invs = sorted(d.inventories)
        out = {}
        n = r.choice([1, 1, 2, 2, 3])
        for _ in range(n):
            if invs and r.random() < 0.9:
                rp, rc = r.choice(invs)
            else:
                rp = self.rp_or_unknown(d, 0.3)
                rc = self.class_pick(d, 0.2)
            amt = self.amount_for(d, rp, rc, replaced,
                                  r.random() < p_valid)
            out.setdefault(rp, {'resources': {}})['resources'][rc] = amt
        return out

    def consumer_gen(self, d, c):
        cur = d.consumers.get(c)
        g = cur['generation'] if cur else None
        if self.bad(0.12):
            return self.rng.choice([None, 0, 1, (g or 0) + 1, (g or 0) + 7])
        return g

    def consumer_attrs(self, d, c, v, body):
        r = self.rng
        if vnum(v) >= 8:
            cur = d.consumers.get(c)
            if cur and r.random() < 0.6:
                body['project_id'] = cur['project'] or r.choice(
                    self.n.projects)
                body['user_id'] = cur['user'] or r.choice(self.n.users)
            else:
                body['project_id'] = r.choice(self.n.projects)
                body['user_id'] = r.choice(self.n.users)
        if vnum(v) >= 28:
            body['consumer_generation'] = self.consumer_gen(d, c)
        if vnum(v) >= 38:
            body['consumer_type'] = r.choice(self.n.ctypes)

    def g_put_alloc(self, d):
        r = self.rng
        c = r.choice(self.n.consumers)
        v = self.ver(ALLOC_BANDS + ['1.11', '1.27', '1.33', '1.37', '1.39'])
        ad = self.alloc_dict(d, c, {c})
        mode = 'write'
        if vnum(v) >= 28 and r.random() < 0.12:
            ad = {}
            mode = 'clear'
        if vnum(v) < 12:
            allocs = [{'resource_provider': {'uuid': rp},
                       'resources': x['resources']} for rp, x in ad.items()]
            if allocs and getattr(self, 'dup_list', False) and \
                    r.random() < 0.25:
                # the list format can name one provider twice
                allocs.insert(r.randrange(len(allocs) + 1),
                              copy.deepcopy(r.choice(allocs)))
                mode = 'write-dup-entry'
        else:
            allocs = ad
        body = {'allocations': allocs}
        self.consumer_attrs(d, c, v, body)
        if vnum(v) >= 34 and ad and r.random() < 0.3:
            body['mappings'] = {'': sorted(ad)}
        return Req('PUT', '/allocations/%s' % c, v, body,
                   tag={'mode': mode, 'consumers': [c]})

    def g_post_allocs(self, d):
        r = self.rng
        v = self.ver(['1.13', '1.27', '1.28', '1.34', '1.38', '1.39'])
        k = r.choice([1, 2, 2, 3, 3, 4])
        pool = list(self.n.consumers)
        if r.random() < 0.3:
            pool += self.n.upper_consumers
        cs = r.sample(pool, min(k, len(pool)))
        # one consumer named twice under two valid spellings of its uuid
        # (the lower-case spelling of an upper-case-only consumer is used
        # nowhere else)
        twin = None
        if r.random() < 0.08:
            up = r.choice(self.n.upper_consumers)
            twin = (up, up.lower())
            cs = [c for c in cs if c not in twin][:2] + list(twin)
            r.shuffle(cs)
        body = {}
        replaced = set(cs)
        # joint-overcommit mode: all consumers aim at one inventory, each
        # fits alone
        joint = r.random() < 0.3 and d.inventories
        target = r.choice(sorted(d.inventories)) if joint else None
        running = {}
        for c in cs:
            if joint:
                rp, rc = target
                amt = self.amount_for(d, rp, rc, replaced, True)
                ad = {rp: {'resources': {rc: amt}}}
            else:
                ad = self.alloc_dict(d, c, replaced)
            if c in d.consumers and r.random() < 0.15:
                ad = {}
            elif c not in d.consumers and r.random() < 0.08:
                ad = {}     # an entry that writes nothing for a new consumer
            if twin and c == twin[0] and r.random() < 0.6:
                ad = {}
            e = {'allocations': ad}
            self.consumer_attrs(d, c, v, e)
            if 'project_id' not in e:
                e['project_id'] = r.choice(self.n.projects)
                e['user_id'] = r.choice(self.n.users)
            if vnum(v) >= 34 and ad and r.random() < 0.2:
                e['mappings'] = {'': sorted(ad)}
            if ad and self.bad(0.03):
                # a provider key that is a uuid followed by a newline
                k0 = sorted(ad)[0]
                e['allocations'] = dict(ad)
                e['allocations'][k0 + '\n'] = e['allocations'].pop(k0)
            body[c] = e
        if body and self.bad(0.03):
            # a consumer key that is a uuid followed by a newline
            k0 = sorted(body)[0]
            body[k0 + '\n'] = body.pop(k0)
        return Req('POST', '/allocations', v, body,
                   tag={'mode': 'joint' if joint else 'multi',
                        'consumers': cs})

    def g_delete_alloc(self, d):
        r = self.rng
        have = sorted(d.consumers)
        c = r.choice(have) if have and r.random() < 0.8 \
            else r.choice(self.n.consumers)
        return Req('DELETE', '/allocations/%s' % c,
                   self.ver(['1.0', '1.39']), tag={'consumers': [c]})

    # -- reshaper ---------------------------------------------------------
    def g_reshaper(self, d):
        """Move inventory (and the usage on it) between providers,
        typically parent <-> child; sometimes shrink / drop classes."""
        r = self.rng
        if not d.providers:
            return None
        v = self.ver(['1.30', '1.33', '1.34', '1.38', '1.39'])
        rps = self.existing_rps(d)
        k = r.choice([1, 2, 2, 3])
        chosen = r.sample(rps, min(k, len(rps)))
        if self.bad(0.05):
            chosen.append(self.n.unknown_uuid)
        cur_invs = {}
        for (rp, rc), inv in d.inventories.items():
            cur_invs.setdefault(rp, {})[rc] = dict(inv)
        invs = {}
        for rp in chosen:
            mode = r.random()
            mine = {rc: dict(f) for rc, f in cur_invs.get(rp, {}).items()}
            if mode < 0.35:
                pass                                  # keep
            elif mode < 0.6 and mine:
                del mine[r.choice(sorted(mine))]      # drop a class
            elif mode < 0.8:
                mine[self.class_pick(d, 0.03)] = self.inv_fields(True)
            else:
                mine = {self.class_pick(d, 0.03): self.inv_fields(True)
                        for _ in range(r.choice([0, 1, 2]))}
            invs[rp] = {
                'resource_provider_generation': self.gen_for(d, rp, 0.08),
                'inventories': mine}
        # allocations: consumers touching the chosen providers are moved
        touched = sorted({c for (c, rp, rc) in d.allocs if rp in chosen})
        allocs = {}
        new_pairs = sorted((rp, rc) for rp, x in invs.items()
                           for rc in x['inventories'])
        for c in touched:
            if r.random() < 0.15:
                continue    # left out: keeps its rows (may then be refused)
            cur = {}
            for (cc, rp, rc), used in d.allocs.items():
                if cc == c:
                    cur.setdefault(rp, {'resources': {}})['resources'][rc] \
                        = used
            new = {}
            for rp, x in cur.items():
                for rc, used in x['resources'].items():
                    tgt_rp, tgt_rc = rp, rc
                    if rp in chosen and new_pairs and r.random() < 0.6:
                        same = [p for p in new_pairs if p[1] == rc]
                        tgt_rp, tgt_rc = r.choice(same or new_pairs)
                    if r.random() < 0.1:
                        continue        # drop this piece
                    res = new.setdefault(tgt_rp, {'resources': {}})[
                        'resources']
                    res[tgt_rc] = res.get(tgt_rc, 0) + used
            if r.random() < 0.08:
                new = {}
            e = {'allocations': new}
            cons = d.consumers.get(c)
            e['project_id'] = (cons or {}).get('project') or 'pj0'
            e['user_id'] = (cons or {}).get('user') or 'us0'
            if r.random() < 0.2:
                e['project_id'] = r.choice(self.n.projects)
            e['consumer_generation'] = self.consumer_gen(d, c)
            if vnum(v) >= 38:
                e['consumer_type'] = (cons or {}).get('type') or \
                    r.choice(self.n.ctypes)
            allocs[c] = e
        if r.random() < 0.2:
            # a brand-new consumer placed by the reshape (or named with
            # nothing to write)
            c = r.choice(self.n.consumers + self.n.upper_consumers)
            if c not in allocs and new_pairs:
                rp, rc = r.choice(new_pairs)
                f = invs[rp]['inventories'][rc]
                amt = max(f.get('min_unit', 1), f.get('step_size', 1))
                e = {'allocations': {rp: {'resources': {rc: amt}}}
                     if r.random() < 0.7 else {},
                     'project_id': r.choice(self.n.projects),
                     'user_id': r.choice(self.n.users),
                     'consumer_generation': self.consumer_gen(d, c)}
                if vnum(v) >= 38:
                    e['consumer_type'] = r.choice(self.n.ctypes)
                allocs[c] = e
        body = {'inventories': invs, 'allocations': allocs}
        return Req('POST', '/reshaper', v, body, roles='service',
                   tag={'consumers': sorted(allocs), 'rps': chosen})

    # -- reads ------------------------------------------------------------
    def g_read(self, d):
        r = self.rng
        u = self.rp_or_unknown(d, 0.05)
        c = r.choice(self.n.consumers)
        path = r.choice([
            '/resource_providers', '/resource_providers/%s' % u,
            '/resource_providers/%s/inventories' % u,
            '/resource_providers/%s/usages' % u,
            '/resource_providers/%s/traits' % u,
            '/resource_providers/%s/aggregates' % u,
            '/resource_providers/%s/allocations' % u,
            '/allocations/%s' % c, '/traits', '/resource_classes',
            '/usages?project_id=%s' % r.choice(self.n.projects),
            '/resource_providers?in_tree=%s' % u,
        ])
        return Req('GET', path, self.ver(['1.39', '1.39', '1.14', '1.28']),
                   tag={'op': 'read'})
