"""World generator in the bounded scope of C03/C13/C20: <= 7 providers in <= 3
trees of depth <= 3, 3-4 resource classes, 4 traits incl. the sharing trait, 3
aggregates, adversarial inventories, usage from a few consumers.  Built through
the API, so the world itself is a history."""
from pv.gen.history import MAXINT, mkuuid

CLASSES = ['VCPU', 'DISK_GB', 'CUSTOM_A', 'MEMORY_MB']
TRAITS = ['MISC_SHARES_VIA_AGGREGATE', 'HW_CPU_X86_AVX', 'CUSTOM_T1',
          'CUSTOM_T2']
SHARING = 'MISC_SHARES_VIA_AGGREGATE'
RATIOS = [1.0, 1.0, 1.0, 0.5, 1.5, 2.0, 16.0, 1.1, 0.29, 0.7]


class World(object):
    def __init__(self):
        self.rps = []
        self.aggs = []
        self.classes = []
        self.consumers = []
        self.log = []


def build_world(client, rng, flat=None, no_sharing=None, rich=False):
    """Returns a World; every request must succeed (asserted)."""
    w = World()

    def call(method, path, body=None, version='1.39', ok=(200, 201, 204)):
        r = client.call(method, path, body, version)
        assert r.status in ok, (method, path, body, r.status, r.body[:300])
        return r

    w.aggs = [mkuuid(rng) for _ in range(3)]
    ncls = rng.choice([3, 3, 4])
    w.classes = CLASSES[:ncls]
    call('PUT', '/resource_classes/CUSTOM_A')
    call('PUT', '/traits/CUSTOM_T1')
    call('PUT', '/traits/CUSTOM_T2')
    if flat is None:
        flat = rng.random() < 0.15
    if no_sharing is None:
        no_sharing = rng.random() < 0.25
    n = rng.randint(2, 7)
    n_trees = rng.randint(1, min(3, n))
    # "twin" style (homogeneous hosts, the documented nested shape): two
    # trees, every child supplies ONE class of its own (NUMA node / PF /
    # disk child); the second host is nested the same way or is one flat
    # provider supplying everything
    layout = None
    if not flat and rng.random() < 0.25:
        k0, k1 = rng.choice([2, 2, 3]), rng.choice([0, 2, 2, 3])
        layout = [None, None] + [0] * k0 + [1] * k1
        n, n_trees = len(layout), 2
    parents = {}
    depth = {}
    for i in range(n):
        u = mkuuid(rng)
        body = {'name': 'p%d' % i, 'uuid': u}
        if i >= n_trees and not flat:
            cands = [x for x in w.rps if depth[x] < 3]
            par = rng.choice(cands)
            if layout:
                par = w.rps[layout[i]]
            body['parent_provider_uuid'] = par
            parents[u] = par
            depth[u] = depth[par] + 1
        else:
            parents[u] = None
            depth[u] = 1
        call('POST', '/resource_providers', body)
        w.rps.append(u)
    gen = {u: 0 for u in w.rps}
    # sharing providers: roots, children (nested sharing) or un-aggregated
    sharing = set()
    if not no_sharing:
        for u in w.rps:
            if rng.random() < 0.3:
                sharing.add(u)
    nth = {}
    has_kids = set(parents.values())
    for u in w.rps:
        k = rng.choice([0, 1, 1, 2, 2, 3])
        if u in sharing:
            k = rng.choice([1, 1, 2])
        if rich:
            k = rng.choice([1, 2, 2, 3, 3])
        if layout and not parents[u]:
            k = rng.choice([0, 0, 1]) if u in has_kids else len(w.classes)
        invs = {}
        chosen = rng.sample(w.classes, min(k, len(w.classes)))
        if layout and parents[u]:
            j = nth.get(parents[u], 0)
            nth[parents[u]] = j + 1
            chosen = [w.classes[j % len(w.classes)]]
        for c in chosen:
            total = rng.choice([1, 2, 3, 4, 4, 8, 8, 16])
            if rich or (layout and rng.random() < 0.7):
                total = rng.choice([2, 4, 4, 8, 8, 16])
            f = {'total': total}
            if rng.random() < 0.3:
                f['reserved'] = rng.choice([0, 1, total - 1, total])
            if rng.random() < 0.3:
                f['min_unit'] = rng.choice([1, 2, 3])
            if rng.random() < 0.4:
                f['max_unit'] = rng.choice([1, 2, 3, 4, total])
            if rng.random() < 0.3:
                f['step_size'] = rng.choice([1, 2, 3])
            if rng.random() < 0.5:
                f['allocation_ratio'] = rng.choice(RATIOS)
            invs[c] = f
        if invs:
            call('PUT', '/resource_providers/%s/inventories' % u,
                 {'resource_provider_generation': gen[u],
                  'inventories': invs})
            gen[u] += 1
        ts = set()
        if u in sharing:
            ts.add(SHARING)
        for t in TRAITS[1:]:
            if rng.random() < 0.3:
                ts.add(t)
        if ts:
            call('PUT', '/resource_providers/%s/traits' % u,
                 {'resource_provider_generation': gen[u],
                  'traits': sorted(ts)})
            gen[u] += 1
        ag = [a for a in w.aggs if rng.random() < (0.45 if u in sharing
                                                     else 0.3)]
        if u in sharing and rng.random() < 0.15:
            ag = []          # un-aggregated sharing provider
        elif u in sharing and not ag:
            ag = [rng.choice(w.aggs)]
        if ag:
            call('PUT', '/resource_providers/%s/aggregates' % u,
                 {'resource_provider_generation': gen[u], 'aggregates': ag})
            gen[u] += 1
    # make sure most sharing providers can actually be used from another
    # tree: give a provider of a different tree one of their aggregates
    for u in sorted(sharing):
        if rng.random() < 0.7:
            r = client.call('GET', '/resource_providers/%s/aggregates' % u)
            mine = r.json.get('aggregates', [])
            others = [x for x in w.rps if x != u and x not in sharing]
            if mine and others:
                o = rng.choice(others)
                r2 = client.call('GET', '/resource_providers/%s/aggregates'
                                 % o)
                cur = r2.json.get('aggregates', [])
                if not set(cur) & set(mine):
                    call('PUT', '/resource_providers/%s/aggregates' % o,
                         {'resource_provider_generation':
                          r2.json['resource_provider_generation'],
                          'aggregates': sorted(set(cur) |
                                               {rng.choice(mine)})})
    # usage from a few consumers (valid amounts only; rejected ones ignored)
    for i in range(rng.choice([0, 1, 2, 3])):
        c = mkuuid(rng)
        r = client.call('GET', '/resource_providers/%s/inventories'
                        % rng.choice(w.rps))
        inv = r.json.get('inventories', {}) if r.status == 200 else {}
        if not inv:
            continue
        u = r.json and client.log[-1]['req']['path'].split('/')[2]
        rc = rng.choice(sorted(inv))
        f = inv[rc]
        st = f['step_size']
        lo = ((f['min_unit'] + st - 1) // st) * st
        amt = lo + st * rng.choice([0, 0, 1, 2])
        rr = client.call('PUT', '/allocations/%s' % c, {
            'allocations': {u: {'resources': {rc: amt}}},
            'project_id': 'pj', 'user_id': 'us', 'consumer_generation': None,
            'consumer_type': 'INSTANCE'})
        if rr.status == 204:
            w.consumers.append(c)
    return w
