"""Failure-placement generator (DESIGN.md 4.2 / C04): builds an m-entry write
that is valid in the current state, then makes the n-th entry bad in a chosen
way - for every n and every reason of C04's quantifier."""
import math

from pv.client import Req
from pv.gen.history import MAXINT, vnum

ALLOC_REASONS = ['none', 'unknown-provider', 'unknown-class',
                 'missing-inventory', 'capacity', 'unit',
                 'consumer-generation', 'schema']
INV_REASONS = ['none', 'unknown-class', 'reserved', 'schema',
               'provider-generation', 'in-use']
TRAIT_REASONS = ['none', 'unknown-trait', 'provider-generation', 'schema']
AGG_REASONS = ['none', 'not-uuid', 'provider-generation', 'duplicate']
RESHAPE_REASONS = ['none', 'provider-generation', 'unknown-provider',
                   'unknown-class', 'in-use', 'capacity',
                   'consumer-generation', 'schema', 'missing-inventory']


class FailPlace(object):
    def __init__(self, rng, names):
        self.rng = rng
        self.n = names

    # ------------------------------------------------------------------
    def room(self, d, replaced):
        """{(rp, rc): (inv, used_by_others)} for pairs with inventory."""
        out = {}
        for pair, inv in d.inventories.items():
            others = sum(u for (c, rp, rc), u in d.allocs.items()
                         if (rp, rc) == pair and c not in replaced)
            out[pair] = (inv, others)
        return out

    @staticmethod
    def valid_amounts(inv, free):
        mn, mx, st = inv['min_unit'], inv['max_unit'], inv['step_size']
        lo = ((mn + st - 1) // st) * st
        hi = min(mx, free)
        a = lo
        out = []
        while a <= hi and len(out) < 4:
            out.append(a)
            a += st
        return out

    def build_allocs(self, d, consumers, max_entries=3):
        """-> {consumer: [(rp, rc, amount)]}, jointly valid."""
        r = self.rng
        room = self.room(d, set(consumers))
        free = {}
        for pair, (inv, others) in room.items():
            cap = (inv['total'] - inv['reserved']) * inv['allocation_ratio']
            free[pair] = int(math.floor(cap + 1e-9)) - others
        plan = {}
        pairs = sorted(room)
        for c in consumers:
            entries = []
            used_pairs = set()
            for _ in range(r.randint(1, max_entries)):
                cands = [p for p in pairs if p not in used_pairs and
                         self.valid_amounts(room[p][0], free[p])]
                if not cands:
                    break
                p = r.choice(cands)
                amt = r.choice(self.valid_amounts(room[p][0], free[p]))
                free[p] -= amt
                used_pairs.add(p)
                entries.append((p[0], p[1], amt))
            plan[c] = entries
        return plan, room, free

    def body_for(self, d, c, entries, v, gen_override=Ellipsis):
        r = self.rng
        ad = {}
        for rp, rc, amt in entries:
            ad.setdefault(rp, {'resources': {}})['resources'][rc] = amt
        cur = d.consumers.get(c)
        e = {'allocations': ad}
        if v >= 8:
            if cur and r.random() < 0.5:
                e['project_id'], e['user_id'] = cur['project'], cur['user']
            else:
                e['project_id'] = r.choice(self.n.projects)
                e['user_id'] = r.choice(self.n.users)
        if v >= 28:
            e['consumer_generation'] = cur['generation'] if cur else None
            if gen_override is not Ellipsis:
                e['consumer_generation'] = gen_override
        if v >= 38:
            e['consumer_type'] = r.choice(self.n.ctypes)
        return e

    def corrupt_entry(self, d, entries, reason, room, free):
        """make one (rp, rc, amt) bad; returns new entries or None if the
        reason cannot be realised in this state."""
        r = self.rng
        if not entries:
            return None
        k = r.randrange(len(entries))
        rp, rc, amt = entries[k]
        if reason == 'unknown-provider':
            new = (self.n.unknown_uuid, rc, amt)
        elif reason == 'unknown-class':
            new = (rp, 'CUSTOM_NOPE', amt)
        elif reason == 'missing-inventory':
            cands = [c for c in self.n.classes if c in d.classes and
                     (rp, c) not in d.inventories and
                     all(not (e[0] == rp and e[1] == c) for e in entries)]
            if not cands:
                return None
            new = (rp, r.choice(cands), 1)
        elif reason == 'capacity':
            inv = room[(rp, rc)][0]
            over = free[(rp, rc)] + amt + 1
            # keep the unit constraints satisfied so capacity is the reason
            st = inv['step_size']
            over = ((over + st - 1) // st) * st
            if over > inv['max_unit'] or over < inv['min_unit']:
                return None
            new = (rp, rc, over)
        elif reason == 'unit':
            inv = room[(rp, rc)][0]
            cands = []
            if inv['min_unit'] > 1:
                cands.append(inv['min_unit'] - 1)
            if inv['max_unit'] < MAXINT:
                cands.append(inv['max_unit'] + 1)
            if inv['step_size'] > 1:
                cands.append(amt + 1)
            if not cands:
                return None
            new = (rp, rc, r.choice(cands))
        elif reason == 'schema':
            new = (rp, rc, r.choice([0, -1, 'x', 1.5, None]))
        else:
            return None
        out = list(entries)
        out[k] = new
        return out

    # -- POST /allocations ------------------------------------------------
    def post_allocs(self, d):
        r = self.rng
        v = r.choice([13, 27, 28, 34, 38, 39])
        m = r.choice([2, 2, 3, 3, 4])
        cs = r.sample(self.n.consumers, min(m, len(self.n.consumers)))
        plan, room, free = self.build_allocs(d, cs)
        if not all(plan[c] for c in cs):
            return None
        reasons = [x for x in ALLOC_REASONS
                   if x != 'consumer-generation' or v >= 28]
        reason = r.choice(reasons)
        pos = r.randrange(len(cs))
        bad_c = cs[pos]
        gen_override = Ellipsis
        if reason == 'consumer-generation':
            cur = d.consumers.get(bad_c)
            gen_override = (cur['generation'] + r.choice([1, 3])) if cur \
                else r.choice([0, 2])
        elif reason != 'none':
            new = self.corrupt_entry(d, plan[bad_c], reason, room, free)
            if new is None:
                return None
            plan[bad_c] = new
        body = {}
        for c in cs:
            body[c] = self.body_for(
                d, c, plan[c], v,
                gen_override if c == bad_c else Ellipsis)
            if 'project_id' not in body[c]:
                body[c]['project_id'] = 'pj0'
                body[c]['user_id'] = 'us0'
        mix = ''.join('E' if c in d.consumers else 'N' for c in cs)
        return Req('POST', '/allocations', '1.%d' % v, body,
                   tag={'op': 'fp_post_allocs', 'reason': reason,
                        'bad_pos': '%d/%d' % (pos + 1, len(cs)) if
                        reason != 'none' else '-', 'mix': mix,
                        'consumers': cs})

    # -- PUT /allocations/{c} -----------------------------------------------
    def put_alloc(self, d):
        r = self.rng
        v = r.choice([0, 8, 12, 27, 28, 34, 38, 39])
        c = r.choice(self.n.consumers)
        plan, room, free = self.build_allocs(d, [c], max_entries=4)
        entries = plan[c]
        if not entries:
            return None
        reasons = [x for x in ALLOC_REASONS
                   if x != 'consumer-generation' or v >= 28]
        reason = r.choice(reasons)
        gen_override = Ellipsis
        pos = '-'
        if reason == 'consumer-generation':
            cur = d.consumers.get(c)
            gen_override = (cur['generation'] + r.choice([1, 3])) if cur \
                else r.choice([0, 2])
        elif reason != 'none':
            new = self.corrupt_entry(d, entries, reason, room, free)
            if new is None:
                return None
            for i, (a, b) in enumerate(zip(entries, new)):
                if a != b:
                    pos = '%d/%d' % (i + 1, len(entries))
            entries = new
        e = self.body_for(d, c, entries, v, gen_override)
        if v < 12:
            e['allocations'] = [
                {'resource_provider': {'uuid': rp},
                 'resources': x['resources']}
                for rp, x in e['allocations'].items()]
        return Req('PUT', '/allocations/%s' % c, '1.%d' % v, e,
                   tag={'op': 'fp_put_alloc', 'reason': reason,
                        'bad_pos': pos,
                        'mix': 'E' if c in d.consumers else 'N',
                        'consumers': [c]})

    # -- PUT inventories ----------------------------------------------------
    def put_invs(self, d):
        r = self.rng
        if not d.providers:
            return None
        u = r.choice(sorted(d.providers))
        v = r.choice([0, 25, 26, 39])
        in_use = sorted({rc for (c, rp, rc) in d.allocs if rp == u})
        classes = set(in_use)
        for _ in range(r.choice([1, 2, 3])):
            classes.add(r.choice([c for c in self.n.classes
                                  if c in d.classes] or ['VCPU']))
        classes = sorted(classes)
        r.shuffle(classes)
        invs = {}
        for c in classes:
            total = r.choice([4, 8, 16, 100])
            cur = d.inventories.get((u, c))
            if cur and c in in_use:
                invs[c] = {k: cur[k] for k in cur}
            else:
                invs[c] = {'total': total,
                           'reserved': r.choice([0, 1]),
                           'allocation_ratio': r.choice([1.0, 1.5, 2.0])}
        reason = r.choice(INV_REASONS)
        gen = d.providers[u]['generation']
        pos = r.randrange(len(classes))
        key = classes[pos]
        if reason == 'unknown-class':
            invs = self._rekey(invs, key, 'CUSTOM_NOPE')
        elif reason == 'reserved':
            invs[key] = dict(invs[key])
            invs[key]['reserved'] = invs[key]['total'] + 1
        elif reason == 'schema':
            invs[key] = dict(invs[key])
            invs[key]['total'] = r.choice([0, -1, 'x', MAXINT + 1])
        elif reason == 'provider-generation':
            gen += r.choice([1, -1, 4])
        elif reason == 'in-use':
            if not in_use:
                return None
            drop = r.choice(in_use)
            pos = list(invs).index(drop)
            del invs[drop]
            if not invs:
                pos = 0
        body = {'resource_provider_generation': gen, 'inventories': invs}
        return Req('PUT', '/resource_providers/%s/inventories' % u,
                   '1.%d' % v, body,
                   tag={'op': 'fp_put_invs', 'reason': reason,
                        'bad_pos': '%d/%d' % (pos + 1, len(classes))
                        if reason != 'none' else '-', 'rp': u})

    @staticmethod
    def _rekey(dct, old, new):
        return {(new if k == old else k): v for k, v in dct.items()}

    # -- PUT traits -----------------------------------------------------------
    def put_traits(self, d):
        r = self.rng
        if not d.providers:
            return None
        u = r.choice(sorted(d.providers))
        known = [t for t in self.n.traits if t in d.traits]
        if not known:
            return None
        ts = r.sample(known, min(len(known), r.choice([1, 2, 3])))
        reason = r.choice(TRAIT_REASONS)
        gen = d.providers[u]['generation']
        pos = r.randrange(len(ts))
        if reason == 'unknown-trait':
            ts[pos] = 'CUSTOM_NOPE'
        elif reason == 'schema':
            ts[pos] = r.choice([1, None, '', 'X' * 256])
        elif reason == 'provider-generation':
            gen += r.choice([1, -1, 4])
        body = {'resource_provider_generation': gen, 'traits': ts}
        return Req('PUT', '/resource_providers/%s/traits' % u,
                   r.choice(['1.6', '1.39']), body,
                   tag={'op': 'fp_put_traits', 'reason': reason,
                        'bad_pos': '%d/%d' % (pos + 1, len(ts))
                        if reason != 'none' else '-', 'rp': u})

    # -- PUT aggregates -----------------------------------------------------
    def put_aggs(self, d):
        r = self.rng
        if not d.providers:
            return None
        u = r.choice(sorted(d.providers))
        v = r.choice([1, 18, 19, 39])
        aggs = r.sample(self.n.aggs, r.choice([1, 2, 3]))
        reasons = [x for x in AGG_REASONS
                   if x != 'provider-generation' or v >= 19]
        reason = r.choice(reasons)
        gen = d.providers[u]['generation']
        pos = r.randrange(len(aggs))
        if reason == 'not-uuid':
            aggs[pos] = r.choice(['nope', '', 1])
        elif reason == 'duplicate':
            aggs.append(aggs[pos])
        elif reason == 'provider-generation':
            gen += r.choice([1, -1, 4])
        body = aggs if v < 19 else {'aggregates': aggs,
                                    'resource_provider_generation': gen}
        return Req('PUT', '/resource_providers/%s/aggregates' % u,
                   '1.%d' % v, body,
                   tag={'op': 'fp_put_aggs', 'reason': reason,
                        'bad_pos': '%d/%d' % (pos + 1, len(aggs))
                        if reason != 'none' else '-', 'rp': u})

    # -- POST /reshaper -------------------------------------------------------
    def reshaper(self, d):
        """Valid reshape: move all usage of one (provider, class) to another
        provider (same class, fresh inventory big enough), keep everything
        else; then corrupt."""
        r = self.rng
        if len(d.providers) < 2:
            return None
        v = r.choice([30, 33, 34, 38, 39])
        usage = d.usage()
        src_pairs = sorted(p for p, u in usage.items() if u > 0
                           and p in d.inventories)
        rps = sorted(d.providers)
        cur_invs = {}
        for (rp, rc), inv in d.inventories.items():
            cur_invs.setdefault(rp, {})[rc] = dict(inv)
        invs = {}
        moved = None
        if src_pairs and r.random() < 0.8:
            src, rc = r.choice(src_pairs)
            dst = r.choice([x for x in rps if x != src])
            moved = (src, rc, dst)
            s_inv = {k: dict(f) for k, f in cur_invs.get(src, {}).items()}
            del s_inv[rc]
            d_inv = {k: dict(f) for k, f in cur_invs.get(dst, {}).items()}
            need = usage[(src, rc)] + usage.get((dst, rc), 0)
            d_inv[rc] = {'total': max(need, 1) * 2, 'reserved': 0,
                         'min_unit': 1, 'max_unit': MAXINT, 'step_size': 1,
                         'allocation_ratio': 1.0}
            invs[src] = s_inv
            invs[dst] = d_inv
        else:
            for rp in r.sample(rps, min(2, len(rps))):
                x = {k: dict(f) for k, f in cur_invs.get(rp, {}).items()}
                c = r.choice([c for c in self.n.classes if c in d.classes]
                             or ['VCPU'])
                if c not in x:
                    x[c] = {'total': 10, 'reserved': 0, 'min_unit': 1,
                            'max_unit': MAXINT, 'step_size': 1,
                            'allocation_ratio': 1.0}
                invs[rp] = x
        allocs = {}
        if moved:
            src, rc, dst = moved
            for c in sorted({c for (c, rp, k) in d.allocs
                             if rp == src and k == rc}):
                new = {}
                for (cc, rp, k), used in d.allocs.items():
                    if cc != c:
                        continue
                    trp = dst if (rp == src and k == rc) else rp
                    res = new.setdefault(trp, {'resources': {}})['resources']
                    res[k] = res.get(k, 0) + used
                cons = d.consumers.get(c) or {}
                e = {'allocations': new,
                     'project_id': cons.get('project') or 'pj0',
                     'user_id': cons.get('user') or 'us0',
                     'consumer_generation': cons.get('generation')}
                if v >= 38:
                    e['consumer_type'] = cons.get('type') or 'INSTANCE'
                allocs[c] = e
        mix = 'moved' if moved else 'add'
        fresh = [c for c in self.n.consumers if c not in d.consumers]
        if moved and fresh and r.random() < 0.4:
            # the reshape also places a consumer that does not exist yet
            # (on the destination's new inventory, which has room for it)
            nc = r.choice(fresh)
            e = {'allocations': {moved[2]: {'resources': {moved[1]: 1}}},
                 'project_id': 'pj0', 'user_id': 'us0',
                 'consumer_generation': None}
            if v >= 38:
                e['consumer_type'] = 'INSTANCE'
            allocs[nc] = e
            invs[moved[2]][moved[1]]['total'] += 1
            mix = 'moved+new-consumer'
        reasons = list(RESHAPE_REASONS)
        reason = r.choice(reasons)
        inv_keys = list(invs)
        pos = '-'
        if reason == 'provider-generation':
            k = r.randrange(len(inv_keys))
            pos = 'inv %d/%d' % (k + 1, len(inv_keys))
        gens = {rp: d.providers[rp]['generation'] for rp in inv_keys}
        if reason == 'provider-generation':
            gens[inv_keys[k]] += r.choice([1, -1, 3])
        elif reason == 'unknown-provider':
            k = r.randrange(len(inv_keys))
            pos = 'inv %d/%d' % (k + 1, len(inv_keys))
            new_invs = {}
            for i, rp in enumerate(inv_keys):
                new_invs[self.n.unknown_uuid if i == k else rp] = invs[rp]
            gens[self.n.unknown_uuid] = 0
            invs = new_invs
            inv_keys = list(invs)
        elif reason == 'unknown-class':
            k = r.randrange(len(inv_keys))
            pos = 'inv %d/%d' % (k + 1, len(inv_keys))
            invs[inv_keys[k]] = dict(invs[inv_keys[k]])
            invs[inv_keys[k]]['CUSTOM_NOPE'] = {'total': 5}
        elif reason == 'in-use':
            # drop the moved class from the source without moving one
            # consumer's usage
            if not moved or not allocs:
                return None
            olds = sorted(c for c in allocs if c in d.consumers)
            if not olds:
                return None
            victim = r.choice(olds)
            pos = 'alloc %d/%d' % (sorted(allocs).index(victim) + 1,
                                   len(allocs))
            del allocs[victim]
        elif reason == 'capacity':
            if not moved:
                return None
            src, rc, dst = moved
            invs[dst][rc]['total'] = max(
                1, usage[(src, rc)] + usage.get((dst, rc), 0) - 1)
            if usage[(src, rc)] + usage.get((dst, rc), 0) <= 1:
                return None
        elif reason == 'consumer-generation':
            if not allocs:
                return None
            victim = r.choice(sorted(allocs))
            pos = 'alloc %d/%d' % (sorted(allocs).index(victim) + 1,
                                   len(allocs))
            allocs[victim]['consumer_generation'] = \
                (allocs[victim]['consumer_generation'] or 0) + 2
        elif reason == 'schema':
            k = r.randrange(len(inv_keys))
            pos = 'inv %d/%d' % (k + 1, len(inv_keys))
            x = dict(invs[inv_keys[k]])
            x['VCPU'] = {'total': r.choice([0, -1, 'x'])}
            invs[inv_keys[k]] = x
        elif reason == 'missing-inventory':
            if not allocs:
                return None
            victim = r.choice(sorted(allocs))
            rp = r.choice(inv_keys)
            cands = [c for c in self.n.classes if c in d.classes and
                     c not in invs[rp]]
            if not cands:
                return None
            res = allocs[victim]['allocations'].setdefault(
                rp, {'resources': {}})['resources']
            res[r.choice(cands)] = 1
        body = {'inventories': {
            rp: {'resource_provider_generation': gens[rp],
                 'inventories': invs[rp]} for rp in inv_keys},
            'allocations': allocs}
        return Req('POST', '/reshaper', '1.%d' % v, body, roles='service',
                   tag={'op': 'fp_reshaper', 'reason': reason,
                        'bad_pos': pos, 'mix': mix,
                        'consumers': sorted(allocs)})

    def next(self, d):
        r = self.rng
        for _ in range(6):
            f = r.choices([self.post_allocs, self.put_alloc, self.reshaper,
                           self.put_invs, self.put_traits, self.put_aggs],
                          [6, 4, 5, 3, 2, 2])[0]
            req = f(d)
            if req is not None:
                return req
        return None
