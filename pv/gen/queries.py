"""Generator of valid GET /allocation_candidates (and /resource_providers)
queries as structured objects + their serialisation."""
from urllib.parse import quote

from pv.gen.worlds import TRAITS

AC_VERSIONS = [10, 11, 12, 16, 17, 21, 22, 24, 25, 28, 29, 31, 32, 33, 34,
               35, 36, 38, 39, 39, 39, 39]


def new_group():
    return {'resources': {}, 'required': [], 'forbidden': set(),
            'member_of': [], 'forbidden_aggs': set(), 'in_tree': None}


def gen_traits(rng, v, g, p=0.45):
    if v < 17 or rng.random() > p:
        return
    pool = TRAITS[1:] + ([TRAITS[0]] if rng.random() < 0.2 else [])
    n_terms = rng.choice([1, 1, 2]) if v >= 39 else 1
    for _ in range(n_terms):
        if v >= 39 and rng.random() < 0.4:
            g['required'].append(set(rng.sample(pool, 2)))
        else:
            # a plain value is a comma list: each trait its own AND term
            for t in rng.sample(pool, rng.choice([1, 1, 2])):
                g['required'].append({t})
    if v >= 22 and rng.random() < 0.35:
        cands = [t for t in pool
                 if not any(t in s and len(s) == 1 for s in g['required'])]
        if cands:
            g['forbidden'].add(rng.choice(cands))
    # drop any-term fully covered by forbidden (would be a 400)
    g['required'] = [s for s in g['required']
                     if not all(t in g['forbidden'] for t in s)]


def gen_aggs(rng, v, g, aggs, p=0.35):
    if v < 21 or rng.random() > p:
        return
    n_terms = rng.choice([1, 1, 2]) if v >= 24 else 1
    for _ in range(n_terms):
        if rng.random() < 0.4:
            g['member_of'].append(set(rng.sample(aggs, 2)))
        else:
            g['member_of'].append({rng.choice(aggs)})
    if v >= 32 and rng.random() < 0.35:
        g['forbidden_aggs'] |= set(rng.sample(aggs, rng.choice([1, 1, 2])))


SMALL = [False]


def gen_resources(rng, classes, k=None):
    k = k or rng.choice([1, 1, 2, 2, 3])
    if SMALL[0]:
        return {c: rng.choice([1, 1, 1, 2, 2, 3])
                for c in rng.sample(classes, min(k, 2, len(classes)))}
    return {c: rng.choice([1, 1, 1, 2, 2, 3, 4])
            for c in rng.sample(classes, min(k, len(classes)))}


def fitting_resources(rng, view, provider, k):
    """a resources dict that the given provider can satisfy right now"""
    out = {}
    invs = sorted(view.inv[provider].items())
    rng.shuffle(invs)
    for rc, f in invs[:k]:
        st = f['step_size']
        lo = ((f['min_unit'] + st - 1) // st) * st
        for amt in (lo, lo + st):
            if view.room(provider, rc, amt, 'must'):
                out[rc] = amt
                break
    return out


def _aim_group(rng, view, g, p, v, suffixed, aggs, extra=None):
    """shape group g so that provider p can satisfy it"""
    r = fitting_resources(rng, view, p, 1 if suffixed else
                          rng.choice([1, 1, 2]))
    if not r:
        return
    g['resources'] = r
    if not suffixed and extra is not None:
        r2 = fitting_resources(rng, view, extra, 1)
        for rc, amt in r2.items():
            g['resources'].setdefault(rc, amt)
    if g['required'] and view.traits[p] - {TRAITS[0]} and \
            rng.random() < 0.7:
        have = sorted(view.traits[p] - {TRAITS[0]})
        g['required'] = [{rng.choice(have)}]
        if v >= 39 and rng.random() < 0.3:
            g['required'].append({rng.choice(have), rng.choice(TRAITS[1:])})
    if g['forbidden'] and rng.random() < 0.7:
        lack = sorted(set(TRAITS[1:]) - view.traits[p])
        g['forbidden'] = {rng.choice(lack)} if lack else set()
        g['required'] = [t for t in g['required']
                         if not t <= g['forbidden']]
    if g['member_of'] and view.aggs[p] and rng.random() < 0.7:
        g['member_of'] = [{rng.choice(sorted(view.aggs[p]))}]
        if v >= 24 and rng.random() < 0.3:
            g['member_of'].append({rng.choice(sorted(view.aggs[p])),
                                   rng.choice(aggs)})
    if g['forbidden_aggs'] and rng.random() < 0.7:
        lack = sorted(set(aggs) - view.aggs[p])
        g['forbidden_aggs'] = {rng.choice(lack)} if lack else set()
    if g['in_tree'] and rng.random() < 0.7:
        g['in_tree'] = rng.choice(view.tree[view.top[p]])


def _aim_exclusion(rng, view, q):
    """exclusion boundary: the unsuffixed group asks for classes supplied by
    two different providers usable from one tree and forbids an aggregate
    (or a trait) that exactly one of the two suppliers carries - the request
    must then be served by other suppliers or not at all.  Prefers a
    supplier that is the only one of its class among the providers usable
    from its tree, is not a root (an aggregate on a root spans the tree),
    and whose class is also supplied elsewhere."""
    v = q['version']
    g = q['groups']['']
    by_agg = v >= 32 and rng.random() < 0.75
    if not by_agg and v < 22:
        return
    mark = view.aggs if by_agg else {
        u: view.traits[u] - {TRAITS[0]} for u in view.rps}
    sits = []
    for r in view.roots:
        usable = view.usable(r)
        sup = [u for u in usable if view.inv[u]]
        for x in sup:
            for y in sup:
                if y == x or not set(view.inv[y]) - set(view.inv[x]):
                    continue
                for rc in view.inv[x]:
                    for m in sorted(mark[x] - mark[y]):
                        score = 0
                        if all(rc not in view.inv[o] or m in mark[o]
                               for o in sup if o != x):
                            score += 2    # excluding m empties r for rc
                        if m not in mark[r] and m not in mark[view.top[y]]:
                            score += 2    # (an aggregate on a root spans it)
                        if any(rc in view.inv[o] and m not in mark[o] and
                               m not in mark[view.top[o]]
                               for o in view.rps if o not in usable):
                            score += 2    # rc still available elsewhere
                        sits.append((score, r, x, y, rc, m))
    if not sits:
        return
    best = max(s[0] for s in sits)
    if rng.random() < 0.8:
        sits = [s for s in sits if s[0] >= best]
    _, r, x, y, rc, m = rng.choice(sits)
    rx = {c: a for c, a in fitting_resources(rng, view, x, 9).items()
          if c == rc}
    ry = {c: a for c, a in fitting_resources(rng, view, y, 9).items()
          if c not in view.inv[x]}
    if not rx or not ry:
        return
    items = list(rx.items()) + [rng.choice(sorted(ry.items()))]
    rng.shuffle(items)
    g['resources'] = dict(items)
    if by_agg:
        g['forbidden_aggs'] = {m}
        g['member_of'] = []
    else:
        g['forbidden'] = {m}
        g['required'] = []


def gen_ac_query(rng, world, version=None, view=None):
    q = _gen_ac_query(rng, world, version)
    if view is None or not view.roots:
        return q
    # state-aware shaping: aim the groups at one anchor tree (and the
    # sharing providers usable from it) so that the interesting paths are
    # non-empty far more often than with blind parameters
    v = q['version']
    r = rng.choice(view.roots)
    usable = view.usable(r)
    foreign = [u for u in usable if u not in view.tree[r]]
    for s, g in q['groups'].items():
        if rng.random() > 0.85:
            continue
        if foreign and rng.random() < 0.45:
            p = rng.choice(foreign)
        else:
            p = rng.choice(usable)
        if g['resources']:
            _aim_group(rng, view, g, p, v, bool(s), world.aggs,
                       extra=rng.choice(usable) if rng.random() < 0.6
                       else None)
        elif g['required'] and view.traits[p] - {TRAITS[0]}:
            g['required'] = [{rng.choice(sorted(view.traits[p] -
                                                {TRAITS[0]}))}]
    if (q['root_required'] or q['root_forbidden']) and rng.random() < 0.75:
        have = sorted(view.traits[r] - {TRAITS[0]})
        q['root_required'] = {rng.choice(have)} if have and \
            rng.random() < 0.6 else set()
        others = sorted(set(TRAITS) - view.traits[r])
        q['root_forbidden'] = {rng.choice(others)} if others and \
            rng.random() < 0.7 else set()
        if not q['root_required'] and not q['root_forbidden']:
            if TRAITS[0] not in view.traits[r]:
                q['root_forbidden'] = {TRAITS[0]}
    if '' in q['groups'] and rng.random() < 0.1:
        _aim_exclusion(rng, view, q)
    # normalise: a term wholly covered by forbidden traits is a 400
    for g in q['groups'].values():
        g['required'] = [t for t in g['required']
                         if not t <= g['forbidden']]
        if not g['resources'] and not (
                g['required'] or g['forbidden'] or g['member_of'] or
                g['forbidden_aggs'] or g['in_tree']):
            g['required'] = [{TRAITS[1]}]
            g['forbidden'] = set()
    q['root_forbidden'] -= q['root_required']
    return q


def gen_exclusion_query(rng, world, view):
    """a small query aimed at an exclusion boundary (see _aim_exclusion):
    one unsuffixed group over two suppliers of one tree, forbidding a mark
    of one of them; sometimes one more suffixed group rides along"""
    v = rng.choice([22, 24, 29, 32, 32, 33, 34, 36, 39, 39])
    q = {'version': v, 'groups': {'': new_group()}, 'group_policy': None,
         'root_required': set(), 'root_forbidden': set(),
         'same_subtree': [], 'limit': None}
    _aim_exclusion(rng, view, q)
    if not q['groups']['']['resources']:
        q['groups']['']['resources'] = gen_resources(rng, world.classes)
    if v >= 25 and rng.random() < 0.25:
        g = new_group()
        g['resources'] = gen_resources(rng, world.classes, 1)
        q['groups'][rng.choice(['1', '2', '_x'] if v >= 33 else ['1', '2'])] = g
        if rng.random() < 0.5:
            q['group_policy'] = rng.choice(['none', 'isolate'])
    return q


def gen_shared_filter_query(rng, world, view):
    """two or three suffixed groups carrying the IDENTICAL member_of (or
    forbidden-aggregate / required-trait) filter but asking for different
    resources, each aimed at a different member provider: what one group
    makes of the filter must not leak into the next"""
    v = rng.choice([25, 29, 32, 33, 36, 39, 39])
    q = {'version': v, 'groups': {}, 'group_policy': 'none',
         'root_required': set(), 'root_forbidden': set(),
         'same_subtree': [], 'limit': None}
    by_agg = {}
    for u in view.rps:
        if view.inv[u]:
            for a in view.aggs[u]:
                by_agg.setdefault(a, []).append(u)
            # (an aggregate on the root spans its tree)
            for a in view.aggs[view.top[u]]:
                if u not in by_agg.setdefault(a, []):
                    by_agg[a].append(u)
    cands = [(a, us) for a, us in sorted(by_agg.items()) if len(us) >= 2]
    if not cands:
        return gen_exclusion_query(rng, world, view)
    a, us = rng.choice(cands)
    # prefer members of one tree (the groups of a request share a tree)
    x = rng.choice(us)
    same = [u for u in us if u != x and view.top[u] == view.top[x]]
    rest = [u for u in us if u != x]
    ps = [x, rng.choice(same or rest)]
    if len(us) > 2 and rng.random() < 0.3:
        ps.append(rng.choice([u for u in us if u not in ps]))
    names = rng.sample(['1', '2', '3', '10'] if v < 33 else
                       ['_A', '_B', '1', '_net', 'X'], len(ps))
    for name, pvd in zip(names, ps):
        g = new_group()
        g['resources'] = fitting_resources(rng, view, pvd, 1) or \
            gen_resources(rng, world.classes, 1)
        g['member_of'] = [{a}]
        q['groups'][name] = g
    if rng.random() < 0.25:
        q['group_policy'] = 'isolate'
    if v >= 29 and rng.random() < 0.3:
        q['groups'][''] = new_group()
        q['groups']['']['resources'] = gen_resources(rng, world.classes, 1)
        if rng.random() < 0.5:
            q['groups']['']['member_of'] = [{a}]
    return q


def _largest_amount(view, u, rc):
    """the largest amount of rc provider u can take right now (0: none)"""
    f = view.inv[u].get(rc)
    if f is None:
        return 0
    used = view.used.get((u, rc), 0)
    cap = int((f['total'] - f['reserved']) * f['allocation_ratio']) - used
    a = min(cap, f['max_unit'])
    a -= a % f['step_size']
    while a >= max(f['min_unit'], 1):
        if view.room(u, rc, a, 'must'):
            return a
        a -= f['step_size']
    return 0


def gen_disjoint_classes_query(rng, world, view):
    """an unsuffixed group of three or more classes whose FIRST classes can
    only be had from different trees (amounts chosen so), while a later one
    is available: no tree satisfies the group, so nothing - or only what
    other trees offer for all of it - may come back"""
    v = rng.choice([10, 12, 17, 25, 29, 34, 36, 39, 39])
    q = {'version': v, 'groups': {'': new_group()}, 'group_policy': None,
         'root_required': set(), 'root_forbidden': set(),
         'same_subtree': [], 'limit': None}
    best = {}        # class -> {root: largest amount in that tree}
    for r in view.roots:
        for u in view.usable(r):
            for rc in view.inv[u]:
                a = _largest_amount(view, u, rc)
                if a:
                    best.setdefault(rc, {})
                    best[rc][r] = max(best[rc].get(r, 0), a)
    # (class, amount, set of roots that can supply that amount)
    offers = []
    for rc, per in sorted(best.items()):
        for a in sorted(set(per.values())):
            offers.append((rc, a, frozenset(r for r, x in per.items()
                                            if x >= a)))
    pairs = [(x, y) for x in offers for y in offers
             if x[0] != y[0] and not (x[2] & y[2])]
    if not pairs:
        q['groups']['']['resources'] = gen_resources(rng, world.classes, 3)
        return q
    x, y = rng.choice(pairs)
    rest = [o for o in offers if o[0] not in (x[0], y[0])]
    items = [(x[0], x[1]), (y[0], y[1])]
    if rest:
        z = rng.choice(rest)
        items.append((z[0], min(z[1], rng.choice([1, 2, z[1]])) or z[1]))
        if rng.random() < 0.3:
            more = [o for o in rest if o[0] != z[0]]
            if more:
                w_ = rng.choice(more)
                items.append((w_[0], w_[1]))
    else:
        others = [c for c in world.classes if c not in (x[0], y[0])]
        if others:
            items.append((rng.choice(others), 1))
    q['groups']['']['resources'] = dict(items)     # order kept: x, y first
    if v >= 25 and rng.random() < 0.2:
        g = new_group()
        g['resources'] = gen_resources(rng, world.classes, 1)
        q['groups']['1'] = g
        q['group_policy'] = 'none'
    return q


def gen_subtree_query(rng, world, view):
    """three suffixed groups aimed at a provider X and two providers Y, Z
    below it in DIFFERENT branches, with a wide same_subtree constraint over
    all three and - often - a narrower one over two of them (which the wide
    one does not imply: siblings are not in one another's subtree)"""
    v = rng.choice([36, 36, 38, 39, 39])
    q = {'version': v, 'groups': {}, 'group_policy': rng.choice(
        ['none', 'none', 'isolate']), 'root_required': set(),
        'root_forbidden': set(), 'same_subtree': [], 'limit': None}
    kids = {}
    for u in view.rps:
        if view.parent[u]:
            kids.setdefault(view.parent[u], []).append(u)
    cands = []
    for x, ks in kids.items():
        if len(ks) >= 2:
            cands.append((x, ks))
    if not cands:
        return gen_exclusion_query(rng, world, view)
    x, ks = rng.choice(cands)
    y, z = rng.sample(ks, 2)
    if rng.random() < 0.3 and kids.get(y):
        z = rng.choice(kids[y])           # a chain instead of siblings
    names = ['_A', '_B', '_C']
    for name, p in zip(names, (x, y, z)):
        g = new_group()
        r = fitting_resources(rng, view, p, 1)
        if r:
            g['resources'] = r
        else:
            ts = sorted(view.traits[p] - {TRAITS[0]})
            if not ts:
                g['resources'] = gen_resources(rng, world.classes, 1)
            else:
                g['required'] = [{rng.choice(ts)}]
        q['groups'][name] = g
    if not any(g['resources'] for g in q['groups'].values()):
        # (a request needs resources in at least one group)
        q['groups'][rng.choice(names)]['resources'] = gen_resources(
            rng, world.classes, 1)
    q['same_subtree'].append(set(names))
    if rng.random() < 0.7:
        q['same_subtree'].append(set(rng.sample(names, 2)))
    return q


def _gen_ac_query(rng, world, version=None):
    v = version if version is not None else rng.choice(AC_VERSIONS)
    q = {'version': v, 'groups': {}, 'group_policy': None,
         'root_required': set(), 'root_forbidden': set(),
         'same_subtree': [], 'limit': None}
    classes, aggs, rps = world.classes, world.aggs, world.rps
    n_suffixed = 0
    if v >= 25:
        n_suffixed = rng.choice([0, 0, 1, 1, 2, 2, 3])
    has_unsuffixed = n_suffixed == 0 or rng.random() < 0.6
    if has_unsuffixed:
        g = new_group()
        g['resources'] = gen_resources(rng, classes)
        gen_traits(rng, v, g)
        gen_aggs(rng, v, g, aggs)
        if v >= 31 and rng.random() < 0.2:
            g['in_tree'] = rng.choice(rps)
        q['groups'][''] = g
    suffixes = []
    for i in range(n_suffixed):
        if v >= 33 and rng.random() < 0.4:
            s = rng.choice(['_a', '_b-c', 'X', '_net1', '-', '7x'])
            while s in suffixes:
                s += 'z'
        else:
            s = str(rng.choice([1, 2, 3, 4, 10]))
            while s in suffixes:
                s = str(int(s) + 1)
        suffixes.append(s)
        g = new_group()
        g['resources'] = gen_resources(rng, classes,
                                       rng.choice([1, 1, 1, 2]))
        gen_traits(rng, v, g, 0.35)
        gen_aggs(rng, v, g, aggs, 0.25)
        if v >= 31 and rng.random() < 0.2:
            g['in_tree'] = rng.choice(rps)
        q['groups'][s] = g
    if v >= 36 and suffixes and rng.random() < 0.45:
        members = set(rng.sample(suffixes, rng.randint(1, len(suffixes))))
        # a resourceless group joins the same_subtree set
        if rng.random() < 0.5:
            s = 'R' if v >= 33 else '99'
            g = new_group()
            gen_traits(rng, v, g, 0.8)
            gen_aggs(rng, v, g, aggs, 0.2)
            if rng.random() < 0.25:
                g['in_tree'] = rng.choice(rps)
            if not (g['required'] or g['forbidden'] or g['member_of'] or
                    g['forbidden_aggs'] or g['in_tree']):
                g['required'].append({rng.choice(TRAITS[1:])})
            q['groups'][s] = g
            suffixes.append(s)
            members.add(s)
        q['same_subtree'].append(members)
        if len(suffixes) >= 3 and rng.random() < 0.5:
            # a second constraint, often a strict subset of the first (the
            # narrower one is NOT implied by the wider one)
            pool = sorted(members) if len(members) >= 3 and \
                rng.random() < 0.7 else suffixes
            q['same_subtree'].append(set(rng.sample(pool, 2)))
    n_same_provider = len([s for s in q['groups'] if s])
    if n_same_provider > 1:
        q['group_policy'] = rng.choice(['none', 'isolate', 'none'])
    elif n_same_provider == 1 and rng.random() < 0.3:
        q['group_policy'] = rng.choice(['none', 'isolate'])
    if v >= 35 and rng.random() < 0.35:
        pool = TRAITS[1:]
        if rng.random() < 0.6:
            q['root_required'].add(rng.choice(pool))
        if rng.random() < 0.5:
            # (the documented idiom root_required=!MISC_SHARES_VIA_AGGREGATE
            # keeps sharing providers from anchoring a candidate)
            c = [t for t in pool + [TRAITS[0], TRAITS[0]]
                 if t not in q['root_required']]
            q['root_forbidden'].add(rng.choice(c))
        if not q['root_required'] and not q['root_forbidden']:
            q['root_required'].add(rng.choice(pool))
    return q


def ac_pairs(q, order_rng=None):
    """-> list of (key, value) (unencoded)."""
    pairs = []
    for s, g in q['groups'].items():
        if g['resources']:
            pairs.append(('resources' + s, ','.join(
                '%s:%d' % kv for kv in g['resources'].items())))
        v = q['version']
        singles = [next(iter(t)) for t in g['required'] if len(t) == 1]
        multis = [t for t in g['required'] if len(t) > 1]
        forb = ['!' + t for t in sorted(g['forbidden'])]
        if v >= 39:
            if singles or forb:
                pairs.append(('required' + s, ','.join(singles + forb)))
            for t in multis:
                pairs.append(('required' + s, 'in:' + ','.join(sorted(t))))
        elif singles or forb:
            pairs.append(('required' + s, ','.join(singles + forb)))
        for t in g['member_of']:
            if len(t) == 1:
                pairs.append(('member_of' + s, next(iter(t))))
            else:
                pairs.append(('member_of' + s, 'in:' + ','.join(sorted(t))))
        fa = sorted(g['forbidden_aggs'])
        if len(fa) == 1:
            pairs.append(('member_of' + s, '!' + fa[0]))
        elif fa and order_rng is not None and order_rng.random() < 0.5:
            # (repeated negative values: one parameter per aggregate)
            for a in fa:
                pairs.append(('member_of' + s, '!' + a))
        elif fa:
            pairs.append(('member_of' + s, '!in:' + ','.join(fa)))
        if g['in_tree']:
            pairs.append(('in_tree' + s, g['in_tree']))
    if q['group_policy']:
        pairs.append(('group_policy', q['group_policy']))
    if q['root_required'] or q['root_forbidden']:
        pairs.append(('root_required', ','.join(
            sorted(q['root_required']) +
            ['!' + t for t in sorted(q['root_forbidden'])])))
    for ss in q['same_subtree']:
        pairs.append(('same_subtree', ','.join(sorted(ss))))
    if q['limit'] is not None:
        pairs.append(('limit', str(q['limit'])))
    if order_rng is not None:
        order_rng.shuffle(pairs)
    return pairs


def to_path(base, pairs):
    return base + '?' + '&'.join('%s=%s' % (quote(k, safe=''),
                                            quote(v, safe=':,!'))
                                 for k, v in pairs)


def features(q):
    f = set()
    gs = q['groups']
    if '' in gs:
        f.add('unsuffixed')
        if len(gs['']['resources']) > 1:
            f.add('unsuffixed-multi-class')
    ns = len([s for s in gs if s and gs[s]['resources']])
    if ns:
        f.add('suffixed%d' % min(ns, 3))
    if any(not g['resources'] for g in gs.values()):
        f.add('resourceless')
    classes = [c for g in gs.values() for c in g['resources']]
    if len(classes) != len(set(classes)):
        f.add('overlapping-classes')
    for g in gs.values():
        if g['required']:
            f.add('required')
        if any(len(t) > 1 for t in g['required']):
            f.add('required-in')
        if g['forbidden']:
            f.add('forbidden-trait')
        if g['member_of']:
            f.add('member_of')
        if g['forbidden_aggs']:
            f.add('forbidden-agg')
        if g['in_tree']:
            f.add('in_tree')
    if q['group_policy']:
        f.add('policy-' + q['group_policy'])
    if q['root_required'] or q['root_forbidden']:
        f.add('root_required')
    if q['same_subtree']:
        f.add('same_subtree')
    return f


def q_brief(q):
    return to_path('/allocation_candidates', ac_pairs(q)) + \
        ' @1.%d' % q['version']
