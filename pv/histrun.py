"""Drive generated histories through the real service with monitors attached."""
import random

from pv import dbdump
from pv.app import App
from pv.client import Client
from pv.gen.history import HistoryGen, Names
from pv.monitors import Step


class Service(object):
    """One App per process + pristine snapshot to start every history from."""

    def __init__(self, conf_overrides=None, **kw):
        self.app = App(conf_overrides=conf_overrides, **kw)
        self.pristine = self.app.snapshot(self.app.db_path + '.pristine')
        self.client = Client(self.app)

    def fresh(self):
        self.app.restore(self.pristine)
        self.client.log[:] = []
        self.client.step = 0

    def dump(self):
        return dbdump.take(self.app.db_path)

    def close(self):
        self.app.close()


def run_history(svc, gen, steps, monitors, res, hist_id=None,
                after_step=None, sample_every=0):
    """monitors: callables (step, res).  Returns the final dump."""
    client = svc.client
    before = svc.dump()
    for i in range(steps):
        req = gen.next(before)
        resp = client.send(req)
        after = svc.dump()
        st = Step(req, resp, before, after,
                  hist=lambda: {'hist_id': hist_id,
                                'requests': client.history(40)})
        res.count('requests')
        res.count('status_%dxx' % (resp.status // 100))
        for m in monitors:
            m(st, res)
        if after_step is not None:
            after_step(st, res)
            after = svc.dump() if getattr(after_step, 'mutates', False) \
                else after
        before = after
    return before


def plan_seeds(tier, seed, scale, quick_n, thorough_n, per_shard, extra=None,
               hashseeds=(0, 1, 2)):
    """Shard plan: n histories split into shards of per_shard, hash seeds
    rotated."""
    n = int((quick_n if tier == 'quick' else thorough_n) * scale)
    n = max(n, 1)
    shards = []
    i = 0
    k = 0
    while i < n:
        m = min(per_shard, n - i)
        spec = {'seed': seed, 'first': i, 'count': m, 'tier': tier,
                'hashseed': hashseeds[k % len(hashseeds)]}
        if extra:
            spec.update(extra)
        shards.append(spec)
        i += m
        k += 1
    return shards


def hist_rng(spec, i):
    return random.Random('%s/%s/%s' % (spec['seed'], spec.get('salt', ''), i))
