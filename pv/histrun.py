"""Drive generated histories through the real service with monitors attached."""
import random

from pv import dbdump
from pv.app import App
from pv.client import Client
from pv.gen.history import HistoryGen, Names
from pv.monitors import Step


class Service(object):
    """One App per process + pristine snapshot to start every history from."""

    def __init__(self, conf_overrides=None, **kw):
        self.app = App(conf_overrides=conf_overrides, **kw)
        self.pristine = self.app.snapshot(self.app.db_path + '.pristine')
        self.client = Client(self.app)

    def fresh(self):
        self.app.restore(self.pristine)
        self.client.log[:] = []
        self.client.step = 0

    def dump(self):
        return dbdump.take(self.app.db_path)

    def close(self):
        self.app.close()


def run_history(svc, gen, steps, monitors, res, hist_id=None,
                after_step=None, sample_every=0):
    """monitors: callables (step, res).  Returns the final dump."""
    client = svc.client
    before = svc.dump()
    for i in range(steps):
        req = gen.next(before)
        resp = client.send(req)
        after = svc.dump()
        st = Step(req, resp, before, after,
                  hist=lambda: {'hist_id': hist_id,
                                'requests': client.history(40)})
        res.count('requests')
        res.count('status_%dxx' % (resp.status // 100))
        for m in monitors:
            m(st, res)
        if after_step is not None:
            after_step(st, res)
            after = svc.dump() if getattr(after_step, 'mutates', False) \
                else after
        before = after
    return before


def plan_seeds(tier, seed, scale, quick_n, thorough_n, per_shard, extra=None,
               hashseeds=(0, 1, 2)):
    """Shard plan: n histories split into shards of per_shard, hash seeds
    rotated."""
    n = int((quick_n if tier == 'quick' else thorough_n) * scale)
    n = max(n, 1)
    shards = []
    i = 0
    k = 0
    while i < n:
        m = min(per_shard, n - i)
        spec = {'seed': seed, 'first': i, 'count': m, 'tier': tier,
                'hashseed': hashseeds[k % len(hashseeds)]}
        if extra:
            spec.update(extra)
        shards.append(spec)
        i += m
        k += 1
    return shards


def hist_rng(spec, i):
    return random.Random('%s/%s/%s' % (spec['seed'], spec.get('salt', ''), i))


def plan_faulted(shards, tier, seed, scale, quick_n=48, thorough_n=1440,
                 steps=50):
    """append shards of histories whose writes meet injected faults"""
    nf = int((quick_n if tier == 'quick' else thorough_n) * scale)
    per = 6 if tier == 'quick' else 60
    for i in range(0, nf, per):
        shards.append({'seed': seed, 'first': i, 'count': min(per, nf - i),
                       'tier': tier, 'hashseed': (i // per) % 3,
                       'faulted': True, 'steps': steps, 'salt': 'faults'})
    return shards


def run_faulted_histories(pid, spec, res, make_gen, state_problems,
                          kinds=('DL', 'DL', 'ERR', 'CONN')):
    """Histories in which half of the writes run with ONE database fault
    injected at a random SQL event (kinds: DL deadlock without rollback, ERR
    generic error, CONN lost connection; DLR - rollback by the DBMS - only
    where the caller asks for it, see known finding D12).  Whatever the
    request answers, state_problems(dump) -> [(kind, detail)] must stay
    empty."""
    from pv import faults
    from pv.sqlwatch import SqlWatch
    svc = Service()
    watch = SqlWatch(svc.app.engine)
    try:
        for i in range(spec['first'], spec['first'] + spec['count']):
            rng = hist_rng(spec, i)
            svc.fresh()
            gen = make_gen(rng)
            d = svc.dump()
            for _ in range(spec['steps']):
                req = gen.next(d)
                inj = None
                before = d
                if req['method'] != 'GET' and rng.random() < 0.5:
                    inj = faults.Injector(rng.randrange(0, 45),
                                          rng.choice(list(kinds)), watch)
                    snap = svc.app.snapshot(svc.app.db_path + '.prefault')
                    watch.start(inj)
                try:
                    resp = svc.client.send(req)
                finally:
                    if inj is not None:
                        watch.stop()
                d = svc.dump()
                res.count('states_checked_after_faulted_histories')
                fired = inj is not None and inj.fired
                if fired:
                    res.count('faulted_requests')
                    res.seen('fault', req['method'],
                             req['path'].split('/')[1], inj.kind,
                             resp.status // 100)
                    if 200 <= resp.status < 300:
                        res.count('faulted_requests_answered_2xx')
                try:
                    probs = state_problems(d, before, req, resp)
                except TypeError:
                    probs = state_problems(d)
                twin = ''
                if probs and fired:
                    # what does the same request do without the fault?  A
                    # request that is refused anyway writes nothing but the
                    # records it auto-creates and removes again: a fault can
                    # then only have hit that compensation (known finding
                    # D24); for a request that is accepted without the fault
                    # the residue is a new finding
                    svc.app.restore(snap)
                    t = svc.client.send(req, record=False)
                    twin = '|fault-free-twin-%s' % (
                        'accepted' if 200 <= t.status < 300 else 'refused')
                    if all(k == 'consumer-without-allocations' and
                           c not in before.consumers for k, c in probs):
                        twin += '|only-auto-created-consumers'
                for kind, detail in probs[:3]:
                    res.violation(
                        '%s|%s|%s|%s%s' % (
                            pid, kind,
                            'after-fault-' + inj.kind if fired else
                            'faulted-history',
                            '%s %s' % (req['method'],
                                       req['path'].split('/')[1]), twin),
                        '%s %s -> %d: %s %s' % (req['method'], req['path'],
                                                resp.status, kind, detail),
                        {'history': svc.client.history(12),
                         'fault': [inj.k, inj.kind] if fired else None})
                if probs:
                    break
            res.count('histories')
    finally:
        svc.close()


def legacy_injector(svc, names, rng, on_migrated=None, p=0.06):
    """after_step helper: now and then an allocation row left by an ancient
    release (no consumer record) appears and the online data migration
    create_incomplete_consumers() heals it: a consumer at generation 0 with
    the placeholder project and user.  Returns f(step, res) -> bool."""
    from pv import monitors

    def legacy(step, res_):
        d = step.after
        free = [x for x in names.consumers if x not in d.consumers
                and x not in {a for (a, _, _) in d.allocs}]
        usage = d.usage()
        pairs = sorted(
            k for k, f in d.inventories.items()
            if f['min_unit'] <= 1 and f['step_size'] == 1 and
            monitors.capacity_cmp(f, usage.get(k, 0) + 1) == 'fits')
        if not free or not pairs or rng.random() > p:
            return False
        rp, rc = rng.choice(pairs)
        import sqlite3
        con = sqlite3.connect(svc.app.db_path)
        rp_id = con.execute('SELECT id FROM resource_providers WHERE '
                            'uuid = ?', (rp,)).fetchone()[0]
        rc_id = con.execute('SELECT id FROM resource_classes WHERE '
                            'name = ?', (rc,)).fetchone()[0]
        con.execute(
            'INSERT INTO allocations (resource_provider_id, '
            'consumer_id, resource_class_id, used) VALUES (?,?,?,1)',
            (rp_id, free[0], rc_id))
        con.commit()
        con.close()
        from placement import context as pcontext
        from placement.objects import consumer as consumer_obj
        ctx = pcontext.RequestContext(config=svc.app.conf)
        consumer_obj.create_incomplete_consumers(ctx, 50)
        if on_migrated is not None:
            on_migrated(free[0])
        res_.count('legacy_consumers_migrated')
        return True
    return legacy
