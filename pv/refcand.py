"""Brute-force reference enumerator for GET /allocation_candidates, written
from the statement of C03 and doc/source/user/provider-tree.rst - not from the
code.  enumerate(d, q, 'must'|'may') -> set of canonical entries.

The two modes differ only where statement and documentation leave latitude:
 * an unsuffixed member_of met "through the root": as a whole (must) or term by
   term (may);
 * a forbidden aggregate: judged on the providers used and, for the unsuffixed
   group, on the anchor root as well (must) or on the providers used only (may);
 * an unsuffixed in_tree: must = the anchor is the named tree and only its
   members are used; may = additionally sharing providers that belong to the
   named tree, used under another anchor;
 * capacity comparisons on an IEEE rounding boundary: must requires the exact
   AND the floating comparison to hold, may either.
"""
import itertools
from fractions import Fraction

SHARING = 'MISC_SHARES_VIA_AGGREGATE'


class Limit(Exception):
    pass


class View(object):
    """Pre-digested dump."""

    def __init__(self, d):
        self.d = d
        self.rps = sorted(d.providers)
        self.top = {u: d.top_of(u) for u in self.rps}
        self.parent = {u: d.providers[u]['parent'] for u in self.rps}
        self.traits = {u: set() for u in self.rps}
        for u, t in d.rp_traits:
            self.traits[u].add(t)
        self.aggs = {u: set() for u in self.rps}
        for u, a in d.rp_aggs:
            self.aggs[u].add(a)
        self.inv = {u: {} for u in self.rps}
        for (u, rc), f in d.inventories.items():
            self.inv[u][rc] = f
        self.used = d.usage()
        self.roots = sorted(u for u in self.rps if self.top[u] == u)
        self.tree = {r: [u for u in self.rps if self.top[u] == r]
                     for r in self.roots}
        self.sharing = [u for u in self.rps if SHARING in self.traits[u]]
        self.has_trees = any(self.parent[u] for u in self.rps)

    def ancestors(self, u):
        out = {u}
        while self.parent[u]:
            u = self.parent[u]
            out.add(u)
        return out

    def usable(self, r):
        """providers of tree r + sharing providers sharing an aggregate with
        a provider of tree r"""
        tree = self.tree[r]
        aggs = set().union(*(self.aggs[u] for u in tree)) if tree else set()
        out = list(tree)
        for s in self.sharing:
            if s not in tree and self.aggs[s] & aggs:
                out.append(s)
        return out

    def cap_ok(self, u, rc, amount, mode):
        f = self.inv[u].get(rc)
        if f is None:
            return False
        used = self.used.get((u, rc), 0)
        base = f['total'] - f['reserved']
        fl = used + amount <= base * f['allocation_ratio']
        ex = used + amount <= base * Fraction(repr(float(
            f['allocation_ratio'])))
        return (fl and ex) if mode == 'must' else (fl or ex)

    def room(self, u, rc, amount, mode):
        f = self.inv[u].get(rc)
        if f is None:
            return False
        if amount < f['min_unit'] or amount > f['max_unit'] or \
                amount % f['step_size'] != 0:
            return False
        return self.cap_ok(u, rc, amount, mode)

    def traits_ok(self, u, g):
        t = self.traits[u]
        return all(s & t for s in g['required']) and not (g['forbidden'] & t)

    def aggs_direct(self, u, g):
        a = self.aggs[u]
        return all(s & a for s in g['member_of'])


def canon(allocs, mappings):
    a = tuple(sorted((u, rc, amt) for (u, rc), amt in allocs.items()))
    m = tuple(sorted((s, tuple(sorted(ps))) for s, ps in mappings.items()))
    return (a, m)


def enumerate_candidates(d, q, mode='must', cap=200000, view=None):
    v = view or View(d)
    ver = q['version']
    groups = q['groups']
    out = set()
    budget = [cap]
    suffixed = [s for s in groups if s]
    for s, g in groups.items():
        if g['in_tree'] and g['in_tree'] not in v.top:
            return out
    for r in v.roots:
        rt = v.traits[r]
        if not (q['root_required'] <= rt) or (q['root_forbidden'] & rt):
            continue
        usable = v.usable(r)
        tree = set(v.tree[r])
        # -- per suffixed group: admissible single providers ------------------
        choices = []
        dead = False
        for s in suffixed:
            g = groups[s]
            opts = []
            for u in usable:
                if not v.traits_ok(u, g):
                    continue
                if not v.aggs_direct(u, g):
                    continue
                if g['forbidden_aggs'] & v.aggs[u]:
                    continue
                if g['in_tree'] and v.top[u] != v.top[g['in_tree']]:
                    continue
                if not all(v.room(u, rc, amt, mode)
                           for rc, amt in g['resources'].items()):
                    continue
                opts.append(u)
            if not opts:
                dead = True
                break
            choices.append(opts)
        if dead:
            continue
        # -- unsuffixed group: per class admissible providers ---------------
        ug = groups.get('')
        uclasses = []
        uopts = []
        if ug is not None:
            for rc, amt in ug['resources'].items():
                opts = []
                for u in usable:
                    in_t = u in tree
                    if ug['in_tree']:
                        named = v.top[ug['in_tree']]
                        if mode == 'must':
                            if named != r or not in_t:
                                continue
                        else:
                            if v.top[u] != named:
                                continue
                    if ug['forbidden'] & v.traits[u]:
                        continue
                    # member_of
                    if ug['member_of']:
                        direct = v.aggs_direct(u, ug)
                        if in_t:
                            if mode == 'must':
                                okm = direct or v.aggs_direct(r, ug)
                            else:
                                both = v.aggs[u] | v.aggs[r]
                                okm = all(t & both for t in ug['member_of'])
                        else:
                            okm = direct
                        if not okm:
                            continue
                    if ug['forbidden_aggs'] & v.aggs[u]:
                        continue
                    if mode == 'must' and ug['forbidden_aggs'] & v.aggs[r]:
                        continue
                    if not v.room(u, rc, amt, mode):
                        continue
                    opts.append(u)
                if not opts:
                    dead = True
                    break
                uclasses.append((rc, amt))
                uopts.append(opts)
        if dead:
            continue
        n_combo = 1
        for o in choices + uopts:
            n_combo *= len(o)
        budget[0] -= n_combo
        if budget[0] < 0:
            raise Limit()
        for pick in itertools.product(*choices):
            by_suffix = dict(zip(suffixed, pick))
            if q['group_policy'] == 'isolate' and \
                    len(set(pick)) != len(pick):
                continue
            ok = True
            for ss in q['same_subtree']:
                ps = {by_suffix[s] for s in ss if s in by_suffix}
                if len(ps) <= 1:
                    continue
                if not any(all(a in v.ancestors(o) for o in ps)
                           for a in ps):
                    ok = False
                    break
            if not ok:
                continue
            for upick in itertools.product(*uopts):
                if ug is not None and ug['required']:
                    tt = set().union(*(v.traits[u] for u in upick)) \
                        if upick else set()
                    if not all(s & tt for s in ug['required']):
                        continue
                allocs = {}
                for s, u in by_suffix.items():
                    for rc, amt in groups[s]['resources'].items():
                        allocs[(u, rc)] = allocs.get((u, rc), 0) + amt
                for (rc, amt), u in zip(uclasses, upick):
                    allocs[(u, rc)] = allocs.get((u, rc), 0) + amt
                fits = True
                for (u, rc), amt in allocs.items():
                    f = v.inv[u][rc]
                    if amt > f['max_unit'] or not v.cap_ok(u, rc, amt, mode):
                        fits = False
                        break
                if not fits:
                    continue
                if ver < 29 and v.has_trees:
                    used_rps = {u for (u, rc) in allocs}
                    if len({v.top[u] for u in used_rps}) != len(used_rps):
                        continue
                mappings = {s: [u] for s, u in by_suffix.items()}
                if ug is not None:
                    mappings[''] = sorted(set(upick))
                out.add(canon(allocs, mappings))
    return out


def from_response(j, ver):
    """canonical entries of a real response -> (list of entries, raw list)"""
    res = []
    for ar in j['allocation_requests']:
        allocs = {}
        a = ar['allocations']
        if isinstance(a, list):
            for x in a:
                for rc, amt in x['resources'].items():
                    allocs[(x['resource_provider']['uuid'], rc)] = amt
        else:
            for u, x in a.items():
                for rc, amt in x['resources'].items():
                    allocs[(u, rc)] = amt
        res.append(canon(allocs, ar.get('mappings', {})))
    return res


def strip_mappings(entries):
    return {e[0] for e in entries}
