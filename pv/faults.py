"""SQL-statement-indexed fault injection (DESIGN.md 4.4) and the corpus of
write requests shared by C17 (faults) and C18 (crashes)."""
import re
import sqlite3

from pv import world
from pv.client import Req
from pv.world import R, C, S, E, K1, K2, K3, A1, A2

KINDS = ['DL', 'DLR', 'DUP', 'ERR', 'CONN']
NEWAGG = 'cccccccc-cccc-4ccc-8ccc-ccccccccccc1'

UNIQUE_COLS = {
    'resource_providers': 'uuid', 'placement_aggregates': 'uuid',
    'consumers': 'uuid', 'projects': 'external_id', 'users': 'external_id',
    'traits': 'name', 'resource_classes': 'name',
    'consumer_types': 'name',
    'inventories': 'resource_provider_id, inventories.resource_class_id',
    'resource_provider_aggregates':
        'resource_provider_id, resource_provider_aggregates.aggregate_id',
    'resource_provider_traits':
        'trait_id, resource_provider_traits.resource_provider_id',
}


def insert_table(sql):
    m = re.match(r'\s*INSERT\s+INTO\s+([a-z_]+)', sql, re.I)
    return m.group(1) if m else None


class Injector(object):
    """Hook for SqlWatch: raises one fault at event index k."""

    def __init__(self, k, kind, watch):
        self.k = k
        self.kind = kind
        self.watch = watch
        self.fired = False
        self.fired_on = None

    def _raise(self, exc):
        # hand the exception to the injection point inside SQLAlchemy's
        # DBAPI error handling (do_execute / do_begin / do_commit / ...)
        self.watch.inject_next = exc

    def __call__(self, phase, ekind, text, params, conn, idx):
        if phase != 'before' or self.fired or idx != self.k:
            return
        if not applicable(self.kind, ekind, text):
            # (pairs: the second index is planned blind, the stream after the
            # first fault differs from the fault-free one) move on to the
            # next event - never fire at a ROLLBACK, see applicable()
            self.k += 1
            self.deferred = getattr(self, 'deferred', 0) + 1
            return
        self.fired = True
        self.fired_on = (ekind, text)
        from oslo_db import exception as db_exc
        kind = self.kind
        if kind == 'DL':
            return self._raise(db_exc.DBDeadlock())
        if kind == 'DLR':
            # InnoDB: the server has rolled the whole transaction back; the
            # next statement silently opens a new one
            raw = conn.connection.dbapi_connection
            raw.rollback()
            raw.execute('BEGIN')
            return self._raise(db_exc.DBDeadlock())
        if kind == 'DUP':
            t = insert_table(text) or 'placement_aggregates'
            col = UNIQUE_COLS.get(t, 'id')
            return self._raise(sqlite3.IntegrityError(
                'UNIQUE constraint failed: %s.%s' % (t, col)))
        if kind == 'ERR':
            return self._raise(sqlite3.OperationalError('disk I/O error'))
        if kind == 'CONN':
            return self._raise(db_exc.DBConnectionError(
                'connection lost (injected)'))
        raise ValueError(kind)


def applicable(kind, ekind, text):
    # Never at a ROLLBACK: the injection would *prevent* the real rollback
    # and leave a connection holding SQLite's file lock, which no DBMS fault
    # does (a lost connection releases its locks on the server side).
    if ekind == 'rollback':
        return False
    if kind == 'DUP':
        return ekind == 'stmt' and insert_table(text) in UNIQUE_COLS
    if kind in ('DL', 'DLR'):
        # a deadlock is reported for a statement inside a transaction
        return ekind in ('stmt', 'commit') and not (
            ekind == 'stmt' and text.strip().upper() == 'BEGIN')
    return True


def transactions(events):
    """-> list of (first index, last index) of BEGIN..COMMIT/ROLLBACK groups
    in a fault-free trace."""
    out = []
    start = None
    for i, e in enumerate(events):
        if e['kind'] == 'begin':
            start = i
        elif e['kind'] in ('commit', 'rollback') and start is not None:
            out.append((start, i))
            start = None
    return out


def retry_zone(events):
    """Indices where the property *requires* a retry for DL/DLR: statements of
    the allocation-replacement step proper - from the first statement of the
    write transaction that touches `allocations` up to, but not including,
    its COMMIT."""
    zone = set()
    for a, b in transactions(events):
        first = None
        for i in range(a, b):
            e = events[i]
            if e['kind'] == 'stmt' and re.match(
                    r'\s*DELETE FROM allocations\b', e['sql'], re.I):
                first = i
                break
        if first is None:
            continue
        for i in range(first, b):
            e = events[i]
            if e['kind'] != 'stmt':
                continue
            # the replacement step ends where a reshape goes on with its
            # final inventory replacement
            if i > first and re.search(r'\binventories\b', e['sql']) and \
                    not re.search(r'\ballocations\b', e['sql']):
                break
            zone.add(i)
    return zone


def aggregate_first_insert(events):
    return {i for i, e in enumerate(events)
            if e['kind'] == 'stmt' and
            insert_table(e['sql']) == 'placement_aggregates'}


def corpus(d):
    """{name: Req} - one representative request per write route and shape,
    valid against the standard world (pv.world.build) as dumped in d."""
    ops = world.operations(d)
    g = world.gens(d)
    cg = {c: x['generation'] for c, x in d.consumers.items()}
    out = {}
    for (m, path), req in ops.items():
        if m == 'GET':
            continue
        out['%s %s' % (m, path)] = req
    v = '1.39'
    out['PUT /allocations existing -> 2 providers, other project'] = Req(
        'PUT', '/allocations/%s' % K1, v, {
            'allocations': {R: {'resources': {'VCPU': 4}},
                            E: {'resources': {'VCPU': 1}}},
            'project_id': 'proj-moved', 'user_id': 'user-moved',
            'consumer_generation': cg[K1], 'consumer_type': 'MIGRATION'})
    out['PUT /allocations clearing'] = Req(
        'PUT', '/allocations/%s' % K2, v, {
            'allocations': {}, 'project_id': 'proj-other',
            'user_id': 'user-other', 'consumer_generation': cg[K2],
            'consumer_type': 'MIGRATION'})
    out['PUT /allocations 1.0 new consumer'] = Req(
        'PUT', '/allocations/%s' % K3, '1.0', {
            'allocations': [{'resource_provider': {'uuid': E},
                             'resources': {'VCPU': 2}}]})
    out['POST /allocations clear one, move one, create one'] = Req(
        'POST', '/allocations', v, {
            K1: {'allocations': {}, 'project_id': world.PROJECT,
                 'user_id': world.USER, 'consumer_generation': cg[K1],
                 'consumer_type': 'INSTANCE'},
            K2: {'allocations': {E: {'resources': {'VCPU': 2}}},
                 'project_id': 'proj-new', 'user_id': 'user-other',
                 'consumer_generation': cg[K2], 'consumer_type': 'OTHER'},
            K3: {'allocations': {S: {'resources': {'DISK_GB': 7}}},
                 'project_id': 'proj-new', 'user_id': 'user-new',
                 'consumer_generation': None, 'consumer_type': 'INSTANCE'}})
    out['POST /allocations write one, name a new consumer with nothing'] = \
        Req('POST', '/allocations', v, {
            K2: {'allocations': {E: {'resources': {'VCPU': 1}}},
                 'project_id': 'proj-other', 'user_id': 'user-other',
                 'consumer_generation': cg[K2], 'consumer_type': 'MIGRATION'},
            K3: {'allocations': {}, 'project_id': 'proj-new',
                 'user_id': 'user-new', 'consumer_generation': None,
                 'consumer_type': 'INSTANCE'}})
    out['PUT /allocations new consumer with nothing'] = Req(
        'PUT', '/allocations/%s' % K3, v, {
            'allocations': {}, 'project_id': 'proj-new',
            'user_id': 'user-new', 'consumer_generation': None,
            'consumer_type': 'INSTANCE'})
    import copy as _copy
    base = ops[('POST', '/reshaper')]
    body = _copy.deepcopy(base['body'])
    body['allocations'][K1].update({'project_id': 'proj-reshaped',
                                    'user_id': 'user-reshaped',
                                    'consumer_type': 'RESHAPED'})
    out['POST /reshaper also changing a consumer\'s project, user and type'] \
        = Req('POST', '/reshaper', v, body, roles='service')
    # requests REFUSED for an ordinary reason after they have auto-created
    # a consumer
    out['REFUSED PUT /allocations new consumer, unknown provider'] = Req(
        'PUT', '/allocations/%s' % K3, v, {
            'allocations': {world.N: {'resources': {'VCPU': 1}}},
            'project_id': 'proj-new', 'user_id': 'user-new',
            'consumer_generation': None, 'consumer_type': 'INSTANCE'})
    out['REFUSED PUT /allocations new consumer, over capacity'] = Req(
        'PUT', '/allocations/%s' % K3, v, {
            'allocations': {E: {'resources': {'VCPU': 400}}},
            'project_id': 'proj-new', 'user_id': 'user-new',
            'consumer_generation': None, 'consumer_type': 'INSTANCE'})
    out['REFUSED POST /allocations new + existing consumer, no inventory'] \
        = Req('POST', '/allocations', v, {
            K3: {'allocations': {E: {'resources': {'VCPU': 1}}},
                 'project_id': 'proj-new', 'user_id': 'user-new',
                 'consumer_generation': None, 'consumer_type': 'INSTANCE'},
            K1: {'allocations': {E: {'resources': {'DISK_GB': 1}}},
                 'project_id': world.PROJECT, 'user_id': world.USER,
                 'consumer_generation': cg[K1],
                 'consumer_type': 'INSTANCE'}})
    body = _copy.deepcopy(base['body'])
    body['allocations'][K3] = {
        'allocations': {C: {'resources': {'VCPU': 1}}},
        'project_id': 'proj-new', 'user_id': 'user-new',
        'consumer_generation': None, 'consumer_type': 'INSTANCE'}
    del body['allocations'][K2]
    out['REFUSED POST /reshaper new consumer, class still in use'] = Req(
        'POST', '/reshaper', v, body, roles='service')
    out['PUT aggregates new + known'] = Req(
        'PUT', '/resource_providers/%s/aggregates' % R, v, {
            'resource_provider_generation': g[R],
            'aggregates': [A2, NEWAGG]})
    out['PUT aggregates 1.1 new'] = Req(
        'PUT', '/resource_providers/%s/aggregates' % C, '1.1', [NEWAGG, A1])
    out['PUT inventories replace in-use provider'] = Req(
        'PUT', '/resource_providers/%s/inventories' % R, v, {
            'resource_provider_generation': g[R], 'inventories': {
                'VCPU': {'total': 32, 'max_unit': 8},
                'MEMORY_MB': {'total': 8192, 'step_size': 64,
                              'min_unit': 64},
                'DISK_GB': {'total': 50}}})
    out['PUT traits replace'] = Req(
        'PUT', '/resource_providers/%s/traits' % R, v, {
            'resource_provider_generation': g[R],
            'traits': ['CUSTOM_T1', 'CUSTOM_UNUSED', 'HW_CPU_X86_SSE']})
    out['PUT provider re-parent subtree'] = Req(
        'PUT', '/resource_providers/%s' % C, v,
        {'name': 'child', 'parent_provider_uuid': E})
    out['PUT provider: root with a child gets a parent'] = Req(
        'PUT', '/resource_providers/%s' % R, v,
        {'name': 'root', 'parent_provider_uuid': E})
    out['PUT provider: root with a child gets a parent (1.14)'] = Req(
        'PUT', '/resource_providers/%s' % R, '1.14',
        {'name': 'root-renamed', 'parent_provider_uuid': S})
    out['POST provider under parent'] = Req(
        'POST', '/resource_providers', v,
        {'name': 'grandchild', 'uuid': world.N, 'parent_provider_uuid': C})
    out['PUT resource class rename 1.2'] = Req(
        'PUT', '/resource_classes/CUSTOM_UNUSED', '1.2',
        {'name': 'CUSTOM_RENAMED'})
    return out


TEMPLATES = {
    'rps': '/resource_providers', 'rp': '/resource_providers/{uuid}',
    'invs': '/resource_providers/{uuid}/inventories',
    'inv': '/resource_providers/{uuid}/inventories/{resource_class}',
    'rp_aggs': '/resource_providers/{uuid}/aggregates',
    'rp_traits': '/resource_providers/{uuid}/traits',
    'allocs': '/allocations', 'alloc': '/allocations/{consumer_uuid}',
    'trait': '/traits/{name}', 'rc': '/resource_classes/{name}',
    'rcs': '/resource_classes', 'reshaper': '/reshaper'}


def random_corpus(svc, spec):
    """{name: Req}, {name: snapshot path}: write requests that are ACCEPTED
    in a random reachable state (built by a random history), one state per
    request."""
    import random
    from pv.gen.history import HistoryGen, Names
    from pv.routes import classify
    corp, snaps = {}, {}
    for case in range(spec['first'], spec['first'] + spec['count']):
        rng = random.Random('corpus/%s/%s' % (spec['seed'], case))
        svc.fresh()
        names = Names(rng, n_rp=5, n_cons=3)
        gen = HistoryGen(rng, names, p_bad=0.05)
        d = svc.dump()
        for _ in range(rng.randint(15, 45)):
            svc.client.send(gen.next(d))
            d = svc.dump()
        snap = svc.app.snapshot(svc.app.db_path + '.rc%d' % case)
        for attempt in range(25):
            req = gen.next(d)
            if req['method'] == 'GET':
                continue
            svc.app.restore(snap)
            r = svc.client.send(req)
            if 200 <= r.status < 300:
                route = classify(req['path'])[0]
                name = '%s %s [random state %d, 1.%s]' % (
                    req['method'], TEMPLATES.get(route, route), case,
                    (req['version'] or '1.0').split('.')[-1])
                corp[name] = req
                snaps[name] = snap
                break
    svc.app.restore(svc.pristine)
    return corp, snaps
