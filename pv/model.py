"""Executable reference model of the placement API contract (DESIGN.md C11 and
Appendix A) - written from api-ref/source and rest_api_version_history.rst,
not from the code.  For every request it yields the set of admissible
statuses in the current model state, for a success the successor state, and
for reads the expected body (modulo links, ordering, timestamps; generation
numbers are taken from the table dump, which is ground truth for opaque
tokens)."""
import copy
import re
from fractions import Fraction

from pv.routes import classify, vnum, placed

MAXINT = 0x7FFFFFFF
CUSTOM_RX = re.compile(r'^CUSTOM_[A-Z0-9_]+\Z')
RC_RX = re.compile(r'^[A-Z0-9_]+\Z')
UUID_RX = re.compile(r'^[0-9a-fA-F-]{36}\Z')
INV_DEFAULTS = {'reserved': 0, 'min_unit': 1, 'max_unit': MAXINT,
                'step_size': 1, 'allocation_ratio': 1.0}


class Verdict(object):
    """statuses: admissible statuses; apply: callable(state) performing the
    effect of a success; body: callable(resp_json, dump) -> list of problems;
    why: explanation."""

    def __init__(self, statuses, apply=None, body=None, why=''):
        self.statuses = set(statuses)
        self.apply = apply
        self.body = body
        self.why = why


class State(object):
    def __init__(self, std_traits, std_classes):
        self.providers = {}     # uuid -> {'name', 'parent'}
        self.inv = {}           # (uuid, rc) -> fields
        self.traits = set(std_traits)
        self.std_traits = set(std_traits)
        self.classes = set(std_classes)
        self.std_classes = set(std_classes)
        self.rp_traits = set()  # (uuid, trait)
        self.rp_aggs = set()    # (uuid, agg)
        self.consumers = {}     # uuid -> {'project','user','type'}
        self.allocs = {}        # (consumer, uuid, rc) -> amount
        self.pp = self.pu = None    # placeholders (< 1.8)

    # -- helpers ----------------------------------------------------------
    def root(self, u):
        seen = set()
        while self.providers[u]['parent'] is not None and u not in seen:
            seen.add(u)
            u = self.providers[u]['parent']
        return u

    def subtree(self, u):
        out = {u}
        grown = True
        while grown:
            grown = False
            for x, p in self.providers.items():
                if p['parent'] in out and x not in out:
                    out.add(x)
                    grown = True
        return out

    def usage(self, u, rc, exclude=()):
        return sum(a for (c, p, k), a in self.allocs.items()
                   if p == u and k == rc and c not in exclude)

    def consumer_allocs(self, c):
        return {(p, k): a for (cc, p, k), a in self.allocs.items()
                if cc == c}

    def fits(self, inv, used, amount):
        """-> True / False / None (IEEE boundary)"""
        base = inv['total'] - inv['reserved']
        fl = used + amount <= base * float(inv['allocation_ratio'])
        ex = used + amount <= base * Fraction(repr(float(
            inv['allocation_ratio'])))
        if fl != ex:
            return None
        return fl


# ---------------------------------------------------------------------------
def inv_fields(body):
    f = dict(INV_DEFAULTS)
    for k in ('total', 'reserved', 'min_unit', 'max_unit', 'step_size',
              'allocation_ratio'):
        if k in body:
            f[k] = body[k]
    f['allocation_ratio'] = float(f['allocation_ratio'])
    return f


def inv_schema_ok(body, extra=()):
    if not isinstance(body, dict) or 'total' not in body:
        return False
    allowed = {'total', 'reserved', 'min_unit', 'max_unit', 'step_size',
               'allocation_ratio'} | set(extra)
    if set(body) - allowed:
        return False
    for k, lo in (('total', 1), ('reserved', 0), ('min_unit', 1),
                  ('max_unit', 1), ('step_size', 1)):
        if k in body and not (isinstance(body[k], int) and
                              not isinstance(body[k], bool) and
                              lo <= body[k] <= MAXINT):
            return False
    if 'allocation_ratio' in body and not isinstance(
            body['allocation_ratio'], (int, float)):
        return False
    return True


def capacity_status(f, v):
    """-> set of admissible outcomes {'ok','400'} for the capacity rule:
    reserved > total is refused; reserved == total only from 1.26; a capacity
    of zero caused by the ratio is not documented (either)."""
    base = f['total'] - f['reserved']
    if base < 0:
        return {'400'}
    if base == 0:
        return {'ok'} if v >= 26 else {'400'}
    cap = int(base * f['allocation_ratio'])
    if cap <= 0:
        return {'ok', '400'} if v < 26 or cap < 0 else {'ok'}
    return {'ok'}


def alloc_schema_band(v):
    return ('list' if v < 12 else 'dict', v >= 8, v >= 28, v >= 34, v >= 38)


def check_alloc_body(e, v, in_post=False):
    """schema validity of one consumer's allocation document at version v"""
    fmt, need_pu, need_gen, allow_map, need_type = alloc_schema_band(v)
    if not isinstance(e, dict) or 'allocations' not in e:
        return False
    allowed = {'allocations'}
    if need_pu or in_post:
        allowed |= {'project_id', 'user_id'}
        if 'project_id' not in e or 'user_id' not in e:
            return False
    if need_gen:
        allowed.add('consumer_generation')
        if 'consumer_generation' not in e:
            return False
    if allow_map:
        allowed.add('mappings')
    if need_type:
        allowed.add('consumer_type')
        if 'consumer_type' not in e:
            return False
    if set(e) - allowed:
        return False
    a = e['allocations']
    if fmt == 'list' and not in_post:
        if not isinstance(a, list) or not a:
            return False
        for x in a:
            if not isinstance(x, dict) or set(x) != {'resource_provider',
                                                     'resources'}:
                return False
            if not x['resources']:
                return False
            for rc, amt in x['resources'].items():
                if not RC_RX.match(rc) or not isinstance(amt, int) or \
                        amt < 1:
                    return False
        return True
    if not isinstance(a, dict):
        return False
    if not a and not (need_gen or in_post):
        return False
    for rp, x in a.items():
        if not UUID_RX.match(rp) or not isinstance(x, dict) or \
                'resources' not in x or not x['resources']:
            return False
        if set(x) - {'resources', 'generation'}:
            return False
        for rc, amt in x['resources'].items():
            if not RC_RX.match(rc) or not isinstance(amt, int) or amt < 1:
                return False
    return True


class Model(object):
    def __init__(self, std_traits, std_classes, placeholder_project,
                 placeholder_user):
        self.s = State(std_traits, std_classes)
        self.s.pp, self.s.pu = placeholder_project, placeholder_user

    # -----------------------------------------------------------------------
    def judge(self, req):
        """-> Verdict or None (route not modelled)"""
        name, params, query = classify(req['path'])
        m = req['method']
        v = vnum(req['version'])
        fn = getattr(self, 'r_%s_%s' % (m.lower(), name), None)
        if fn is None:
            return None
        return fn(req, params, query, v)

    # -- allocation write core ------------------------------------------------
    def alloc_write(self, docs, v, new_inv=None, check_gen=True):
        """docs: {consumer: doc}.  Returns (statuses, apply).  new_inv:
        {(rp, rc): fields} final inventories of a reshape (None otherwise)."""
        s = self.s
        st = set()
        inv = dict(s.inv)
        if new_inv is not None:
            touched = {rp for rp in new_inv['providers']}
            inv = {k: f for k, f in inv.items() if k[0] not in touched}
            inv.update(new_inv['inv'])
        replaced = set(docs)
        want = {}
        for c, e in docs.items():
            pl = {}
            a = e['allocations']
            if isinstance(a, list):
                for x in a:
                    for rc, amt in x['resources'].items():
                        pl[(x['resource_provider']['uuid'], rc)] = amt
            else:
                for rp, x in a.items():
                    for rc, amt in x['resources'].items():
                        pl[(rp, rc)] = amt
            want[c] = pl
            if v >= 28 and check_gen:
                cur = s.consumers.get(c)
                g = e.get('consumer_generation')
                if cur is None and g is not None:
                    st.add(409)
                if cur is not None and g != cur['gen']:
                    st.add(409)
            for (rp, rc) in pl:
                if rp not in s.providers:
                    st.add(400)
                if rc not in s.classes:
                    st.add(400)
        running = {}
        ambiguous = False
        for c, pl in want.items():
            for (rp, rc), amt in pl.items():
                if rp not in s.providers or rc not in s.classes:
                    continue
                f = inv.get((rp, rc))
                if f is None:
                    st.add(409)
                    continue
                if amt < f['min_unit'] or amt > f['max_unit'] or \
                        amt % f['step_size'] != 0:
                    st.add(409)
                    continue
                running[(rp, rc)] = running.get((rp, rc), 0) + amt
        for (rp, rc), total in running.items():
            f = inv[(rp, rc)]
            others = s.usage(rp, rc, exclude=replaced)
            fit = s.fits(f, others, total)
            if fit is None:
                ambiguous = True
            elif not fit:
                st.add(409)
        if new_inv is not None:
            # classes removed by the reshape must not stay in use
            for (c, rp, rc), amt in s.allocs.items():
                if c in replaced:
                    continue
                if rp in new_inv['providers'] and (rp, rc) not in inv:
                    st.add(409)
            for c, pl in want.items():
                for (rp, rc) in pl:
                    if rp in new_inv['providers'] and (rp, rc) not in inv \
                            and rc in s.classes:
                        st.add(409)

        def apply(state, docs=docs, want=want, v=v):
            for c, pl in want.items():
                for k in [k for k in state.allocs if k[0] == c]:
                    del state.allocs[k]
                e = docs[c]
                if not pl:
                    state.consumers.pop(c, None)
                    continue
                for (rp, rc), amt in pl.items():
                    state.allocs[(c, rp, rc)] = amt
                cur = state.consumers.get(c)
                if 'project_id' in e:
                    pj, us = {e['project_id']}, {e['user_id']}
                elif cur is not None:
                    pj = cur['project'] | {state.pp}
                    us = cur['user'] | {state.pu}
                else:
                    pj, us = {state.pp}, {state.pu}
                if 'consumer_type' in e:
                    ty = {e['consumer_type']}
                elif cur is not None:
                    ty = cur['type']
                else:
                    ty = {None}
                state.consumers[c] = {'project': pj, 'user': us, 'type': ty,
                                      'gen': None}
        if ambiguous:
            st |= {409, 204}
        return st, apply

    # -- providers ------------------------------------------------------------
    def r_post_rps(self, req, params, q, v):
        s = self.s
        b = req['body']
        if not isinstance(b, dict) or 'name' not in b:
            return Verdict({400})
        st = set()
        if 'parent_provider_uuid' in b and v < 14:
            return Verdict({400}, why='parent key before 1.14')
        u = b.get('uuid')
        if u in s.providers or any(p['name'] == b['name']
                                   for p in s.providers.values()):
            st.add(409)
        par = b.get('parent_provider_uuid')
        if par is not None and (par not in s.providers or par == u):
            st.add(400)
        if st:
            return Verdict(st)

        def apply(state):
            state.providers[u] = {'name': b['name'], 'parent': par}

        def body(j, d):
            if v < 20:
                return [] if not j else ['body on 201: %r' % j]
            return self.cmp_provider(j, d, u, v, {'name': b['name'],
                                                  'parent': par})
        return Verdict({201 if v < 20 else 200}, apply, body)

    def cmp_provider(self, j, d, u, v, p):
        probs = []
        if not isinstance(j, dict):
            return ['not an object']
        if j.get('uuid') != u or j.get('name') != p['name']:
            probs.append('uuid/name %r/%r' % (j.get('uuid'), j.get('name')))
        if u in d.providers and j.get('generation') != \
                d.providers[u]['generation']:
            probs.append('generation %r, stored %r' % (
                j.get('generation'), d.providers[u]['generation']))
        if v >= 14:
            root = u
            tmp = {x: y['parent'] for x, y in self.s.providers.items()}
            tmp[u] = p['parent']
            seen = set()
            while tmp.get(root) is not None and root not in seen:
                seen.add(root)
                root = tmp[root]
            if j.get('parent_provider_uuid') != p['parent'] or \
                    j.get('root_provider_uuid') != root:
                probs.append('parent/root %r/%r expected %r/%r' % (
                    j.get('parent_provider_uuid'),
                    j.get('root_provider_uuid'), p['parent'], root))
        else:
            if 'parent_provider_uuid' in j or 'root_provider_uuid' in j:
                probs.append('parent/root shown below 1.14')
        return probs

    def r_get_rp(self, req, params, q, v):
        s = self.s
        u = params['uuid']
        if u not in s.providers:
            return Verdict({404})
        return Verdict({200}, None, lambda j, d: self.cmp_provider(
            j, d, u, v, s.providers[u]))

    def r_get_rps(self, req, params, q, v):
        s = self.s
        keys = [k for k, _ in q]
        if any(k not in ('in_tree',) for k in keys):
            return None      # filter semantics belong to C13
        want = set(s.providers)
        if keys:
            if v < 14:
                return Verdict({400})
            t = dict(q)['in_tree']
            want = {u for u in s.providers if t in s.providers and
                    s.root(u) == s.root(t)}

        def body(j, d):
            probs = []
            got = {x['uuid']: x for x in j.get('resource_providers', [])}
            if set(got) != want:
                probs.append('lists %s, expected %s' % (sorted(got),
                                                        sorted(want)))
            for u in set(got) & want:
                probs += self.cmp_provider(got[u], d, u, v, s.providers[u])
            return probs
        return Verdict({200}, None, body)

    def r_put_rp(self, req, params, q, v):
        s = self.s
        u = params['uuid']
        b = req['body']
        if u not in s.providers:
            # unknown provider vs. schema problems: order not documented
            return Verdict({404, 400} if not isinstance(b, dict) or
                           ('parent_provider_uuid' in b and v < 14)
                           else {404})
        if not isinstance(b, dict) or 'name' not in b:
            return Verdict({400})
        if 'parent_provider_uuid' in b and v < 14:
            return Verdict({400})
        st = set()
        if any(p['name'] == b['name'] and x != u
               for x, p in s.providers.items()):
            st.add(409)
        cur = s.providers[u]['parent']
        newp = cur
        if 'parent_provider_uuid' in b:
            par = b['parent_provider_uuid']
            newp = par
            if par is not None:
                if par not in s.providers:
                    st.add(400)
                elif par in s.subtree(u):
                    st.add(400)
                elif cur is not None and par != cur and v < 37:
                    st.add(400)
            elif cur is not None and v < 37:
                st.add(400)
        if st:
            return Verdict(st)

        def apply(state):
            state.providers[u] = {'name': b['name'], 'parent': newp}
        return Verdict({200}, apply, lambda j, d: self.cmp_provider(
            j, d, u, v, {'name': b['name'], 'parent': newp}))

    def r_delete_rp(self, req, params, q, v):
        s = self.s
        u = params['uuid']
        if u not in s.providers:
            return Verdict({404})
        st = set()
        if any(p == u for (_, p, _) in s.allocs):
            st.add(409)
        if any(p['parent'] == u for p in s.providers.values()):
            st.add(409)
        if st:
            return Verdict(st)

        def apply(state):
            del state.providers[u]
            for k in [k for k in state.inv if k[0] == u]:
                del state.inv[k]
            state.rp_traits = {k for k in state.rp_traits if k[0] != u}
            state.rp_aggs = {k for k in state.rp_aggs if k[0] != u}
        return Verdict({204}, apply)

    # -- inventories -----------------------------------------------------------
    def cmp_inv(self, j, f):
        probs = []
        for k, val in f.items():
            if j.get(k) != val and not (
                    k == 'allocation_ratio' and
                    float(j.get(k, -1)) == float(val)):
                probs.append('%s=%r expected %r' % (k, j.get(k), val))
        return probs

    def r_get_invs(self, req, params, q, v):
        s = self.s
        u = params['uuid']
        if u not in s.providers:
            return Verdict({404})

        def body(j, d):
            probs = []
            want = {rc: f for (p, rc), f in s.inv.items() if p == u}
            got = j.get('inventories', {})
            if set(got) != set(want):
                probs.append('classes %s expected %s' % (sorted(got),
                                                         sorted(want)))
            for rc in set(got) & set(want):
                probs += ['%s: %s' % (rc, x)
                          for x in self.cmp_inv(got[rc], want[rc])]
            if j.get('resource_provider_generation') != \
                    d.providers[u]['generation']:
                probs.append('resource_provider_generation %r stored %r' % (
                    j.get('resource_provider_generation'),
                    d.providers[u]['generation']))
            return probs
        return Verdict({200}, None, body)

    def r_get_inv(self, req, params, q, v):
        s = self.s
        u, rc = params['uuid'], params['rc']
        if u not in s.providers or (u, rc) not in s.inv:
            return Verdict({404})
        return Verdict({200}, None,
                       lambda j, d: self.cmp_inv(j, s.inv[(u, rc)]))

    def r_post_invs(self, req, params, q, v):
        s = self.s
        u = params['uuid']
        b = req['body']
        ok = inv_schema_ok(b, ('resource_class',)) and \
            isinstance(b.get('resource_class'), str) and \
            RC_RX.match(b.get('resource_class', ''))
        if u not in s.providers:
            return Verdict({404} if ok else {404, 400})
        if not ok:
            return Verdict({400})
        rc = b['resource_class']
        f = inv_fields(b)
        st = set()
        if rc not in s.classes:
            st.add(400)
        if (u, rc) in s.inv:
            st.add(409)
        cs = capacity_status(f, v)
        if '400' in cs:
            st.add(400)
        if st and 'ok' not in cs or (st - {400}) or rc not in s.classes:
            return Verdict(st)

        def apply(state):
            state.inv[(u, rc)] = f
        return Verdict({201} | st, apply,
                       lambda j, d: self.cmp_inv(j, f))

    def r_put_invs(self, req, params, q, v):
        s = self.s
        u = params['uuid']
        b = req['body']
        ok = isinstance(b, dict) and set(b) == {
            'resource_provider_generation', 'inventories'} and \
            isinstance(b['resource_provider_generation'], int) and \
            isinstance(b['inventories'], dict) and all(
                RC_RX.match(rc) and inv_schema_ok(f)
                for rc, f in b['inventories'].items())
        if u not in s.providers:
            return Verdict({404} if ok else {404, 400})
        if not ok:
            return Verdict({400})
        st = set()
        if b['resource_provider_generation'] != self.gen(u):
            st.add(409)
        new = {rc: inv_fields(f) for rc, f in b['inventories'].items()}
        amb = False
        for rc, f in new.items():
            if rc not in s.classes:
                st.add(400)
            cs = capacity_status(f, v)
            if cs == {'400'}:
                st.add(400)
            elif '400' in cs:
                amb = True
        for (p, rc) in s.inv:
            if p == u and rc not in new and s.usage(u, rc) > 0:
                st.add(409)
        if st:
            return Verdict(st | ({400} if amb else set()))

        def apply(state):
            for k in [k for k in state.inv if k[0] == u]:
                del state.inv[k]
            for rc, f in new.items():
                state.inv[(u, rc)] = f

        def body(j, d):
            probs = []
            got = j.get('inventories', {})
            if set(got) != set(new):
                probs.append('classes %s expected %s' % (sorted(got),
                                                         sorted(new)))
            for rc in set(got) & set(new):
                probs += self.cmp_inv(got[rc], new[rc])
            return probs
        return Verdict({200} | ({400} if amb else set()), apply, body)

    def r_delete_invs(self, req, params, q, v):
        s = self.s
        u = params['uuid']
        if v < 5:
            return Verdict({405})
        if u not in s.providers:
            return Verdict({404})
        if any(p == u for (_, p, _) in s.allocs):
            return Verdict({409})

        def apply(state):
            for k in [k for k in state.inv if k[0] == u]:
                del state.inv[k]
        return Verdict({204}, apply)

    def r_put_inv(self, req, params, q, v):
        s = self.s
        u, rc = params['uuid'], params['rc']
        b = req['body']
        ok = inv_schema_ok(b, ('resource_provider_generation',)) and \
            isinstance(b.get('resource_provider_generation'), int)
        if u not in s.providers:
            return Verdict({404} if ok else {404, 400})
        if not ok:
            return Verdict({400})
        st = set()
        if b['resource_provider_generation'] != self.gen(u):
            st.add(409)
        f = inv_fields(b)
        if rc not in s.classes or (u, rc) not in s.inv:
            st |= {400, 404}
        cs = capacity_status(f, v)
        if '400' in cs:
            st.add(400)
        if st and (cs == {'400'} or st - {400}):
            return Verdict(st)

        def apply(state):
            state.inv[(u, rc)] = f
        return Verdict({200} | st, apply, lambda j, d: self.cmp_inv(j, f))

    def r_delete_inv(self, req, params, q, v):
        s = self.s
        u, rc = params['uuid'], params['rc']
        if u not in s.providers:
            return Verdict({404})
        if rc not in s.classes:
            return Verdict({404, 400})
        if (u, rc) not in s.inv:
            return Verdict({404})
        if s.usage(u, rc) > 0:
            return Verdict({409})

        def apply(state):
            del state.inv[(u, rc)]
        return Verdict({204}, apply)

    def r_get_rp_usages(self, req, params, q, v):
        s = self.s
        u = params['uuid']
        if u not in s.providers:
            return Verdict({404})

        def body(j, d):
            want = {rc: s.usage(u, rc) for (p, rc) in s.inv if p == u}
            if j.get('usages') != want:
                return ['usages %r expected %r' % (j.get('usages'), want)]
            return []
        return Verdict({200}, None, body)

    # -- aggregates -----------------------------------------------------------
    def r_get_rp_aggs(self, req, params, q, v):
        s = self.s
        u = params['uuid']
        if v < 1:
            return Verdict({404})
        if u not in s.providers:
            return Verdict({404})

        def body(j, d):
            want = sorted(a for (p, a) in s.rp_aggs if p == u)
            probs = []
            if sorted(j.get('aggregates', [])) != want:
                probs.append('aggregates %r expected %r' % (
                    j.get('aggregates'), want))
            if (v >= 19) != ('resource_provider_generation' in j):
                probs.append('generation key presence at 1.%d' % v)
            elif v >= 19 and j['resource_provider_generation'] != \
                    d.providers[u]['generation']:
                probs.append('generation differs from stored')
            return probs
        return Verdict({200}, None, body)

    def r_put_rp_aggs(self, req, params, q, v):
        s = self.s
        u = params['uuid']
        b = req['body']
        if v < 1:
            return Verdict({404})
        if v >= 19:
            ok = isinstance(b, dict) and set(b) == {
                'aggregates', 'resource_provider_generation'} and \
                isinstance(b['resource_provider_generation'], int) and \
                isinstance(b['aggregates'], list)
            aggs = b['aggregates'] if ok else None
        else:
            ok = isinstance(b, list)
            aggs = b
        if ok:
            ok = all(isinstance(a, str) and UUID_RX.match(a) for a in aggs) \
                and len(set(aggs)) == len(aggs)
        if u not in s.providers:
            return Verdict({404} if ok else {404, 400})
        if not ok:
            return Verdict({400})
        if v >= 19 and b['resource_provider_generation'] != self.gen(u):
            return Verdict({409})

        def apply(state):
            state.rp_aggs = {k for k in state.rp_aggs if k[0] != u} | {
                (u, a) for a in aggs}

        def body(j, d):
            if sorted(j.get('aggregates', []) if isinstance(j, dict)
                      else []) != sorted(aggs):
                return ['aggregates %r expected %r' % (j, sorted(aggs))]
            return []
        return Verdict({200}, apply, body)

    # -- traits -----------------------------------------------------------------
    def r_get_traits(self, req, params, q, v):
        s = self.s
        if v < 6:
            return Verdict({404})
        qd = dict(q)
        if len(qd) != len(q) or set(qd) - {'name', 'associated'}:
            return Verdict({400}) if set(qd) - {'name', 'associated'} \
                else None
        want = set(s.traits)
        if 'name' in qd:
            val = qd['name']
            # (an empty list / empty prefix is not excluded by the api-ref:
            # it selects nothing / everything)
            if val.startswith('in:'):
                want &= set(val[3:].split(','))
            elif val.startswith('startswith:'):
                want = {t for t in want if t.startswith(val[11:])}
            else:
                return Verdict({400})
        if 'associated' in qd:
            a = qd['associated'].lower()
            if a not in ('true', 'false'):
                return Verdict({400})
            used = {t for (_, t) in s.rp_traits}
            want = (want & used) if a == 'true' else (want - used)
        if q:
            def body_f(j, d):
                got = set(j.get('traits', []))
                if got != want:
                    return ['filtered traits differ: %s' % sorted(
                        got ^ want)[:5]]
                return []
            return Verdict({200}, None, body_f)

        def body(j, d):
            if set(j.get('traits', [])) != s.traits:
                diff = set(j.get('traits', [])) ^ s.traits
                return ['traits differ: %s' % sorted(diff)[:5]]
            return []
        return Verdict({200}, None, body)

    def r_get_trait(self, req, params, q, v):
        if v < 6:
            return Verdict({404})
        return Verdict({204} if params['name'] in self.s.traits else {404})

    def r_put_trait(self, req, params, q, v):
        s = self.s
        n = params['name']
        if v < 6:
            return Verdict({404})
        if not CUSTOM_RX.match(n) or len(n) > 255:
            return Verdict({400})
        if n in s.traits:
            return Verdict({204})
        return Verdict({201}, lambda state: state.traits.add(n))

    def r_delete_trait(self, req, params, q, v):
        s = self.s
        n = params['name']
        if v < 6:
            return Verdict({404})
        if n not in s.traits:
            return Verdict({404} if n.startswith('CUSTOM_') else {404, 400})
        if n in s.std_traits:
            return Verdict({400})
        if any(t == n for (_, t) in s.rp_traits):
            return Verdict({409})
        return Verdict({204}, lambda state: state.traits.discard(n))

    def r_get_rp_traits(self, req, params, q, v):
        s = self.s
        u = params['uuid']
        if v < 6 or u not in s.providers:
            return Verdict({404})

        def body(j, d):
            want = sorted(t for (p, t) in s.rp_traits if p == u)
            probs = []
            if sorted(j.get('traits', [])) != want:
                probs.append('traits %r expected %r' % (j.get('traits'),
                                                        want))
            if j.get('resource_provider_generation') != \
                    d.providers[u]['generation']:
                probs.append('generation differs from stored')
            return probs
        return Verdict({200}, None, body)

    def r_put_rp_traits(self, req, params, q, v):
        s = self.s
        u = params['uuid']
        b = req['body']
        if v < 6:
            return Verdict({404})
        ok = isinstance(b, dict) and set(b) == {
            'traits', 'resource_provider_generation'} and isinstance(
            b['resource_provider_generation'], int) and isinstance(
            b['traits'], list) and all(
            isinstance(t, str) and 1 <= len(t) <= 255 for t in b['traits'])
        if u not in s.providers:
            return Verdict({404} if ok else {404, 400})
        if not ok:
            return Verdict({400})
        st = set()
        if b['resource_provider_generation'] != self.gen(u):
            st.add(409)
        if any(t not in s.traits for t in b['traits']):
            st.add(400)
        if st:
            return Verdict(st)
        ts = set(b['traits'])

        def apply(state):
            state.rp_traits = {k for k in state.rp_traits if k[0] != u} | {
                (u, t) for t in ts}

        def body(j, d):
            if sorted(j.get('traits', [])) != sorted(ts):
                return ['traits %r expected %r' % (j.get('traits'),
                                                   sorted(ts))]
            return []
        return Verdict({200}, apply, body)

    def r_delete_rp_traits(self, req, params, q, v):
        s = self.s
        u = params['uuid']
        if v < 6 or u not in s.providers:
            return Verdict({404})

        def apply(state):
            state.rp_traits = {k for k in state.rp_traits if k[0] != u}
        return Verdict({204}, apply)

    # -- resource classes ---------------------------------------------------------
    def r_get_rcs(self, req, params, q, v):
        s = self.s
        if v < 2:
            return Verdict({404})

        def body(j, d):
            got = {x['name'] for x in j.get('resource_classes', [])}
            if got != s.classes:
                return ['classes differ: %s' % sorted(got ^ s.classes)[:5]]
            return []
        return Verdict({200}, None, body)

    def r_get_rc(self, req, params, q, v):
        if v < 2:
            return Verdict({404})
        n = params['name']
        if n not in self.s.classes:
            return Verdict({404})
        return Verdict({200}, None, lambda j, d: [] if j.get('name') == n
                       else ['name %r' % j.get('name')])

    def r_post_rcs(self, req, params, q, v):
        s = self.s
        b = req['body']
        if v < 2:
            return Verdict({404})
        n = b.get('name') if isinstance(b, dict) else None
        if not isinstance(n, str) or not CUSTOM_RX.match(n) or \
                len(n) > 255 or set(b) != {'name'}:
            return Verdict({400})
        if n in s.classes:
            return Verdict({409})
        return Verdict({201}, lambda state: state.classes.add(n))

    def r_put_rc(self, req, params, q, v):
        s = self.s
        n = params['name']
        if v < 2:
            return Verdict({404})
        if v >= 7:
            if not CUSTOM_RX.match(n) or len(n) > 255:
                return Verdict({400})
            if n in s.classes:
                return Verdict({204})
            return Verdict({201}, lambda state: state.classes.add(n))
        b = req['body']
        new = b.get('name') if isinstance(b, dict) else None
        ok = isinstance(new, str) and CUSTOM_RX.match(new) and \
            len(new) <= 255 and set(b) == {'name'}
        if n not in s.classes:
            return Verdict({404} if ok else {404, 400})
        if not ok:
            return Verdict({400})
        if n in s.std_classes:
            return Verdict({400})
        if new in s.classes and new != n:
            return Verdict({409})
        if new == n:
            return Verdict({200, 409})

        def apply(state):
            state.classes.discard(n)
            state.classes.add(new)
            for k in [k for k in state.inv if k[1] == n]:
                state.inv[(k[0], new)] = state.inv.pop(k)
            for k in [k for k in state.allocs if k[2] == n]:
                state.allocs[(k[0], k[1], new)] = state.allocs.pop(k)
        return Verdict({200}, apply, lambda j, d: [] if j.get('name') == new
                       else ['name %r' % j.get('name')])

    def r_delete_rc(self, req, params, q, v):
        s = self.s
        n = params['name']
        if v < 2:
            return Verdict({404})
        if n not in s.classes:
            return Verdict({404})
        if n in s.std_classes:
            return Verdict({400})
        if any(rc == n for (_, rc) in s.inv):
            return Verdict({409})
        return Verdict({204}, lambda state: state.classes.discard(n))

    # -- allocations -----------------------------------------------------------
    def gen(self, u):
        return self._dump.providers[u]['generation']

    def r_get_alloc(self, req, params, q, v):
        s = self.s
        c = params['consumer']

        def body(j, d):
            probs = []
            want = {}
            for (p, rc), a in s.consumer_allocs(c).items():
                want.setdefault(p, {})[rc] = a
            got = {p: x.get('resources') for p, x in
                   j.get('allocations', {}).items()}
            if got != want:
                probs.append('allocations %r expected %r' % (got, want))
            for p, x in j.get('allocations', {}).items():
                if p in d.providers and x.get('generation') != \
                        d.providers[p]['generation']:
                    probs.append('provider generation of %s' % p)
            cons = s.consumers.get(c)
            if cons and want:
                if v >= 12:
                    if j.get('project_id') not in cons['project'] or \
                            j.get('user_id') not in cons['user']:
                        probs.append('project/user %r/%r expected %r/%r' % (
                            j.get('project_id'), j.get('user_id'),
                            sorted(cons['project']), sorted(cons['user'])))
                elif 'project_id' in j:
                    probs.append('project_id shown below 1.12')
                if (v >= 28) != ('consumer_generation' in j):
                    probs.append('consumer_generation presence at 1.%d' % v)
                elif v >= 28 and j['consumer_generation'] != \
                        d.consumers[c]['generation']:
                    probs.append('consumer_generation differs from stored')
                if (v >= 38) != ('consumer_type' in j):
                    probs.append('consumer_type presence at 1.%d' % v)
                elif v >= 38:
                    ct = j['consumer_type']
                    if not ((ct == 'unknown' and None in cons['type']) or
                            ct in cons['type']):
                        probs.append('consumer_type %r expected %r' % (
                            ct, cons['type']))
            elif not want and set(j) - {'allocations'}:
                probs.append('extra keys for a consumer without '
                             'allocations: %s' % sorted(j))
            return probs
        return Verdict({200}, None, body)

    def r_get_rp_allocs(self, req, params, q, v):
        s = self.s
        u = params['uuid']
        if u not in s.providers:
            return Verdict({404})

        def body(j, d):
            probs = []
            want = {}
            for (c, p, rc), a in s.allocs.items():
                if p == u:
                    want.setdefault(c, {})[rc] = a
            got = {c: x.get('resources') for c, x in
                   j.get('allocations', {}).items()}
            if got != want:
                probs.append('allocations %r expected %r' % (got, want))
            if j.get('resource_provider_generation') != \
                    d.providers[u]['generation']:
                probs.append('generation differs from stored')
            for c, x in j.get('allocations', {}).items():
                if (v >= 28) != ('consumer_generation' in x):
                    probs.append('consumer_generation presence')
                elif v >= 28 and c in d.consumers and \
                        x['consumer_generation'] != \
                        d.consumers[c]['generation']:
                    probs.append('consumer_generation of %s' % c)
            return probs
        return Verdict({200}, None, body)

    def sync_consumer_gens(self, d):
        for c, x in self.s.consumers.items():
            if c in d.consumers:
                x['gen'] = d.consumers[c]['generation']

    def r_put_alloc(self, req, params, q, v):
        c = params['consumer']
        b = req['body']
        if not check_alloc_body(b, v):
            return Verdict({400})
        st, apply = self.alloc_write({c: b}, v)
        if st - {204}:
            return Verdict(st)
        return Verdict({204}, apply)

    def r_post_allocs(self, req, params, q, v):
        b = req['body']
        if v < 13:
            return Verdict({404})
        if not isinstance(b, dict) or not b or not all(
                UUID_RX.match(c) and check_alloc_body(e, v, in_post=True)
                for c, e in b.items()):
            return Verdict({400})
        st, apply = self.alloc_write(b, v)
        if st - {204}:
            return Verdict(st)
        return Verdict({204}, apply)

    def r_delete_alloc(self, req, params, q, v):
        s = self.s
        c = params['consumer']
        if not s.consumer_allocs(c):
            return Verdict({404})

        def apply(state):
            for k in [k for k in state.allocs if k[0] == c]:
                del state.allocs[k]
            state.consumers.pop(c, None)
        return Verdict({204}, apply)

    def r_post_reshaper(self, req, params, q, v):
        s = self.s
        b = req['body']
        if v < 30:
            return Verdict({404})
        vb = 38 if v >= 38 else 34 if v >= 34 else 28
        ok = isinstance(b, dict) and set(b) == {'inventories',
                                                'allocations'} and \
            isinstance(b['inventories'], dict) and b['inventories'] and \
            isinstance(b['allocations'], dict)
        if ok:
            for rp, x in b['inventories'].items():
                if not (UUID_RX.match(rp) and isinstance(x, dict) and set(x)
                        == {'resource_provider_generation', 'inventories'}
                        and isinstance(x['resource_provider_generation'],
                                       int) and
                        isinstance(x['inventories'], dict) and all(
                            RC_RX.match(rc) and inv_schema_ok(f)
                            for rc, f in x['inventories'].items())):
                    ok = False
            for c, e in b['allocations'].items():
                if not (UUID_RX.match(c) and
                        check_alloc_body(e, vb if vb != 28 else 28,
                                         in_post=True)):
                    ok = False
                if vb == 28 and isinstance(e, dict) and 'mappings' in e:
                    ok = False
        if not ok:
            return Verdict({400})
        st = set()
        amb = False
        new = {'providers': set(b['inventories']), 'inv': {}}
        for rp, x in b['inventories'].items():
            if rp not in s.providers:
                st.add(400)
                continue
            if x['resource_provider_generation'] != self.gen(rp):
                st.add(409)
            for rc, f in x['inventories'].items():
                if rc not in s.classes:
                    st.add(400)
                new['inv'][(rp, rc)] = inv_fields(f)
                # an inventory means the same through whichever route it is
                # written: reserved may not exceed total (equal from 1.26)
                cs = capacity_status(inv_fields(f), v)
                if cs == {'400'}:
                    st.add(400)
                elif '400' in cs:
                    amb = True
        st2, apply_allocs = self.alloc_write(b['allocations'], max(v, 28),
                                             new_inv=new)
        st |= st2 - {204}
        # inventories of providers named that are still used by consumers
        # not named in the request
        if st:
            return Verdict(st | ({400} if amb else set()))

        def apply(state):
            for rp in new['providers']:
                for k in [k for k in state.inv if k[0] == rp]:
                    del state.inv[k]
            state.inv.update(new['inv'])
            apply_allocs(state)
        return Verdict({204} | (st2 & {409}) | ({400} if amb else set()),
                       apply)

    # -- usages -----------------------------------------------------------------
    def r_get_usages(self, req, params, q, v):
        s = self.s
        if v < 9:
            return Verdict({404})
        qd = dict(q)
        allowed = {'project_id', 'user_id'} | (
            {'consumer_type'} if v >= 38 else set())
        if 'project_id' not in qd or set(qd) - allowed or \
                not qd['project_id']:
            return Verdict({400})
        if len(q) != len(qd):
            return None
        if 'consumer_type' in qd and not (
                qd['consumer_type'] in ('all', 'unknown') or
                (RC_RX.match(qd['consumer_type']) and
                 len(qd['consumer_type']) <= 255)):
            # "all", "unknown" or a consumer type name
            return Verdict({400})

        def body(j, d):
            pj, us = qd['project_id'], qd.get('user_id')
            ctf = qd.get('consumer_type')
            tot = {}
            for c, cons in s.consumers.items():
                if len(cons['project']) != 1 or len(cons['user']) != 1 or \
                        len(cons['type']) != 1:
                    return []          # attributes not determined: skip
                if next(iter(cons['project'])) != pj:
                    continue
                if us is not None and next(iter(cons['user'])) != us:
                    continue
                ct = next(iter(cons['type'])) or 'unknown'
                for (p, rc), a in s.consumer_allocs(c).items():
                    g = tot.setdefault(ct, {'classes': {}, 'consumers':
                                            set()})
                    g['classes'][rc] = g['classes'].get(rc, 0) + a
                    g['consumers'].add(c)
            if v < 38:
                flat = {}
                for g in tot.values():
                    for rc, a in g['classes'].items():
                        flat[rc] = flat.get(rc, 0) + a
                if j.get('usages') != flat:
                    return ['usages %r expected %r' % (j.get('usages'),
                                                       flat)]
                return []
            if ctf == 'all':
                classes, cons = {}, set()
                for g in tot.values():
                    cons |= g['consumers']
                    for rc, a in g['classes'].items():
                        classes[rc] = classes.get(rc, 0) + a
                want = {'all': dict(classes, consumer_count=len(cons))} \
                    if cons else {}
            else:
                want = {ct: dict(g['classes'],
                                 consumer_count=len(g['consumers']))
                        for ct, g in tot.items()
                        if ctf is None or ct == ctf}
            if j.get('usages') != want:
                return ['usages %r expected %r' % (j.get('usages'), want)]
            return []
        return Verdict({200}, None, body)

    # -- model state vs dump --------------------------------------------------
    def compare_with_dump(self, d):
        s = self.s
        probs = []
        if set(d.providers) != set(s.providers):
            probs.append('providers %s vs model %s' % (sorted(d.providers),
                                                       sorted(s.providers)))
        for u in set(d.providers) & set(s.providers):
            p, m = d.providers[u], s.providers[u]
            if p['name'] != m['name'] or p['parent'] != m['parent']:
                probs.append('provider %s: %r/%r vs model %r/%r' % (
                    u, p['name'], p['parent'], m['name'], m['parent']))
            elif p['root'] != s.root(u):
                probs.append('provider %s root %r vs model %r' % (
                    u, p['root'], s.root(u)))
        if d.inventories != s.inv:
            for k in set(d.inventories) | set(s.inv):
                if d.inventories.get(k) != s.inv.get(k):
                    probs.append('inventory %s: %r vs model %r' % (
                        k, d.inventories.get(k), s.inv.get(k)))
        if d.allocs != s.allocs:
            for k in set(d.allocs) | set(s.allocs):
                if d.allocs.get(k) != s.allocs.get(k):
                    probs.append('allocation %s: %r vs model %r' % (
                        k, d.allocs.get(k), s.allocs.get(k)))
        if d.rp_traits != s.rp_traits:
            probs.append('provider traits differ: %s' % sorted(
                d.rp_traits ^ s.rp_traits)[:4])
        if d.rp_aggs != s.rp_aggs:
            probs.append('provider aggregates differ: %s' % sorted(
                d.rp_aggs ^ s.rp_aggs)[:4])
        if set(d.traits) != s.traits:
            probs.append('traits differ: %s' % sorted(
                set(d.traits) ^ s.traits)[:4])
        if set(d.classes) != s.classes:
            probs.append('classes differ: %s' % sorted(
                set(d.classes) ^ s.classes)[:4])
        if set(d.consumers) != set(s.consumers):
            probs.append('consumers %s vs model %s' % (
                sorted(d.consumers), sorted(s.consumers)))
        for c in set(d.consumers) & set(s.consumers):
            x, m = d.consumers[c], s.consumers[c]
            if x['project'] not in m['project'] or \
                    x['user'] not in m['user'] or x['type'] not in m['type']:
                probs.append('consumer %s: %r/%r/%r vs model %r/%r/%r' % (
                    c, x['project'], x['user'], x['type'],
                    sorted(m['project']), sorted(m['user']),
                    sorted(map(str, m['type']))))
        return probs


def observe(model, d):
    """Bind the dump taken before the next request: opaque generation tokens
    are read from it; attribute sets left open by a write below 1.8 are
    narrowed to what was stored."""
    model._dump = d
    for c, m in model.s.consumers.items():
        x = d.consumers.get(c)
        if x is None:
            continue
        m['gen'] = x['generation']
        for k in ('project', 'user', 'type'):
            if x[k] in m[k]:
                m[k] = {x[k]}


def adopt(model, d):
    """Re-initialise the model state from a dump (after a reported
    disagreement, so that one defect is not reported again and again)."""
    s = model.s
    s.providers = {u: {'name': p['name'], 'parent': p['parent']}
                   for u, p in d.providers.items()}
    s.inv = {k: dict(f) for k, f in d.inventories.items()}
    s.traits = set(d.traits)
    s.classes = set(d.classes)
    s.rp_traits = set(d.rp_traits)
    s.rp_aggs = set(d.rp_aggs)
    s.allocs = dict(d.allocs)
    s.consumers = {c: {'project': {x['project']}, 'user': {x['user']},
                       'type': {x['type']}, 'gen': x['generation']}
                   for c, x in d.consumers.items()}
