"""A small fixed world + one valid request per documented operation.  Used by
the exhaustive enumerations (C14, C16) and as corpus seed for C17/C18."""
from pv.client import Req

R = '11111111-1111-4111-8111-111111111111'   # root, VCPU/MEMORY_MB
C = '22222222-2222-4222-8222-222222222222'   # child of R, CUSTOM_A
S = '33333333-3333-4333-8333-333333333333'   # sharing provider, DISK_GB
E = '44444444-4444-4444-8444-444444444444'   # empty root (deletable)
N = '55555555-5555-4555-8555-555555555555'   # not existing yet
K1 = 'aaaaaaaa-aaaa-4aaa-8aaa-aaaaaaaaaaa1'  # consumer with allocations
K2 = 'aaaaaaaa-aaaa-4aaa-8aaa-aaaaaaaaaaa2'  # consumer with allocations
K3 = 'aaaaaaaa-aaaa-4aaa-8aaa-aaaaaaaaaaa3'  # new consumer
A1 = 'bbbbbbbb-bbbb-4bbb-8bbb-bbbbbbbbbbb1'
A2 = 'bbbbbbbb-bbbb-4bbb-8bbb-bbbbbbbbbbb2'
PROJECT = 'proj-own'
USER = 'user-own'


def build(client):
    """Create the world through the API (admin); asserts every step."""
    def ok(r, *st):
        assert r.status in st, (r.status, r.body[:300])
        return r
    c = client
    ok(c.call('POST', '/resource_providers', {'name': 'root', 'uuid': R}),
       200)
    ok(c.call('POST', '/resource_providers',
              {'name': 'child', 'uuid': C, 'parent_provider_uuid': R}), 200)
    ok(c.call('POST', '/resource_providers', {'name': 'share', 'uuid': S}),
       200)
    ok(c.call('POST', '/resource_providers', {'name': 'empty', 'uuid': E}),
       200)
    ok(c.call('POST', '/resource_classes', {'name': 'CUSTOM_A'}), 201)
    ok(c.call('PUT', '/resource_classes/CUSTOM_UNUSED'), 201)
    ok(c.call('PUT', '/traits/CUSTOM_T1'), 201)
    ok(c.call('PUT', '/traits/CUSTOM_UNUSED'), 201)
    ok(c.call('PUT', '/resource_providers/%s/inventories' % R, {
        'resource_provider_generation': 0, 'inventories': {
            'VCPU': {'total': 16, 'allocation_ratio': 2.0, 'max_unit': 8},
            'MEMORY_MB': {'total': 4096, 'reserved': 512, 'step_size': 64,
                          'min_unit': 64}}}), 200)
    ok(c.call('PUT', '/resource_providers/%s/inventories' % C, {
        'resource_provider_generation': 0, 'inventories': {
            'CUSTOM_A': {'total': 4}}}), 200)
    ok(c.call('PUT', '/resource_providers/%s/inventories' % S, {
        'resource_provider_generation': 0, 'inventories': {
            'DISK_GB': {'total': 1000, 'reserved': 100}}}), 200)
    ok(c.call('PUT', '/resource_providers/%s/inventories' % E, {
        'resource_provider_generation': 0, 'inventories': {
            'VCPU': {'total': 4}}}), 200)
    ok(c.call('PUT', '/resource_providers/%s/traits' % R, {
        'resource_provider_generation': 1,
        'traits': ['HW_CPU_X86_AVX', 'CUSTOM_T1']}), 200)
    ok(c.call('PUT', '/resource_providers/%s/traits' % S, {
        'resource_provider_generation': 1,
        'traits': ['MISC_SHARES_VIA_AGGREGATE']}), 200)
    ok(c.call('PUT', '/resource_providers/%s/aggregates' % R, {
        'resource_provider_generation': 2, 'aggregates': [A1]}), 200)
    ok(c.call('PUT', '/resource_providers/%s/aggregates' % S, {
        'resource_provider_generation': 2, 'aggregates': [A1, A2]}), 200)
    ok(c.call('PUT', '/allocations/%s' % K1, {
        'allocations': {R: {'resources': {'VCPU': 2, 'MEMORY_MB': 128}},
                        S: {'resources': {'DISK_GB': 10}}},
        'project_id': PROJECT, 'user_id': USER, 'consumer_generation': None,
        'consumer_type': 'INSTANCE'}), 204)
    ok(c.call('PUT', '/allocations/%s' % K2, {
        'allocations': {R: {'resources': {'VCPU': 1}},
                        C: {'resources': {'CUSTOM_A': 1}}},
        'project_id': 'proj-other', 'user_id': 'user-other',
        'consumer_generation': None, 'consumer_type': 'MIGRATION'}), 204)


def gens(d):
    return {u: p['generation'] for u, p in d.providers.items()}


def operations(d):
    """{(method, documented path): Req} - one valid request per documented
    operation against the world as dumped in d (latest microversion)."""
    g = gens(d)
    cg = {c: x['generation'] for c, x in d.consumers.items()}
    v = '1.39'
    ops = {
        ('GET', '/resource_providers'): Req('GET', '/resource_providers', v),
        ('POST', '/resource_providers'): Req(
            'POST', '/resource_providers', v, {'name': 'new', 'uuid': N}),
        ('GET', '/resource_providers/{uuid}'): Req(
            'GET', '/resource_providers/%s' % R, v),
        ('PUT', '/resource_providers/{uuid}'): Req(
            'PUT', '/resource_providers/%s' % E, v,
            {'name': 'empty-renamed', 'parent_provider_uuid': R}),
        ('DELETE', '/resource_providers/{uuid}'): Req(
            'DELETE', '/resource_providers/%s' % E, v),
        ('GET', '/resource_classes'): Req('GET', '/resource_classes', v),
        ('POST', '/resource_classes'): Req(
            'POST', '/resource_classes', v, {'name': 'CUSTOM_NEW'}),
        ('GET', '/resource_classes/{name}'): Req(
            'GET', '/resource_classes/CUSTOM_A', v),
        ('PUT', '/resource_classes/{name}'): Req(
            'PUT', '/resource_classes/CUSTOM_NEW2', v),
        ('DELETE', '/resource_classes/{name}'): Req(
            'DELETE', '/resource_classes/CUSTOM_UNUSED', v),
        ('GET', '/resource_providers/{uuid}/inventories'): Req(
            'GET', '/resource_providers/%s/inventories' % R, v),
        ('POST', '/resource_providers/{uuid}/inventories'): Req(
            'POST', '/resource_providers/%s/inventories' % E, v,
            {'resource_class': 'DISK_GB', 'total': 5}),
        ('GET', '/resource_providers/{uuid}/inventories/{resource_class}'):
            Req('GET', '/resource_providers/%s/inventories/VCPU' % R, v),
        # (replaces E's VCPU by two other classes: a PUT that also drops a
        # class the provider has)
        ('PUT', '/resource_providers/{uuid}/inventories'): Req(
            'PUT', '/resource_providers/%s/inventories' % E, v,
            {'resource_provider_generation': g[E],
             'inventories': {'DISK_GB': {'total': 8},
                             'MEMORY_MB': {'total': 64}}}),
        ('PUT', '/resource_providers/{uuid}/inventories/{resource_class}'):
            Req('PUT', '/resource_providers/%s/inventories/VCPU' % E, v,
                {'resource_provider_generation': g[E], 'total': 6}),
        ('DELETE', '/resource_providers/{uuid}/inventories'): Req(
            'DELETE', '/resource_providers/%s/inventories' % E, v),
        ('DELETE',
         '/resource_providers/{uuid}/inventories/{resource_class}'): Req(
            'DELETE', '/resource_providers/%s/inventories/VCPU' % E, v),
        ('GET', '/resource_providers/{uuid}/aggregates'): Req(
            'GET', '/resource_providers/%s/aggregates' % R, v),
        ('PUT', '/resource_providers/{uuid}/aggregates'): Req(
            'PUT', '/resource_providers/%s/aggregates' % E, v,
            {'resource_provider_generation': g[E], 'aggregates': [A2]}),
        ('GET', '/resource_providers/{uuid}/usages'): Req(
            'GET', '/resource_providers/%s/usages' % R, v),
        ('GET', '/usages'): Req('GET', '/usages?project_id=%s' % PROJECT, v),
        ('GET', '/traits'): Req('GET', '/traits', v),
        ('GET', '/traits/{name}'): Req('GET', '/traits/CUSTOM_T1', v),
        ('PUT', '/traits/{name}'): Req('PUT', '/traits/CUSTOM_NEW', v),
        ('DELETE', '/traits/{name}'): Req(
            'DELETE', '/traits/CUSTOM_UNUSED', v),
        ('GET', '/resource_providers/{uuid}/traits'): Req(
            'GET', '/resource_providers/%s/traits' % R, v),
        ('PUT', '/resource_providers/{uuid}/traits'): Req(
            'PUT', '/resource_providers/%s/traits' % E, v,
            {'resource_provider_generation': g[E],
             'traits': ['CUSTOM_T1']}),
        ('DELETE', '/resource_providers/{uuid}/traits'): Req(
            'DELETE', '/resource_providers/%s/traits' % R, v),
        ('POST', '/allocations'): Req(
            'POST', '/allocations', v, {
                K3: {'allocations': {E: {'resources': {'VCPU': 1}}},
                     'project_id': PROJECT, 'user_id': USER,
                     'consumer_generation': None,
                     'consumer_type': 'INSTANCE'},
                K1: {'allocations': {R: {'resources': {'VCPU': 3}}},
                     'project_id': PROJECT, 'user_id': USER,
                     'consumer_generation': cg.get(K1),
                     'consumer_type': 'INSTANCE'}}),
        ('GET', '/allocations/{consumer_uuid}'): Req(
            'GET', '/allocations/%s' % K1, v),
        ('PUT', '/allocations/{consumer_uuid}'): Req(
            'PUT', '/allocations/%s' % K3, v, {
                'allocations': {R: {'resources': {'VCPU': 1}},
                                S: {'resources': {'DISK_GB': 5}}},
                'project_id': PROJECT, 'user_id': USER,
                'consumer_generation': None, 'consumer_type': 'INSTANCE'}),
        ('DELETE', '/allocations/{consumer_uuid}'): Req(
            'DELETE', '/allocations/%s' % K1, v),
        ('GET', '/resource_providers/{uuid}/allocations'): Req(
            'GET', '/resource_providers/%s/allocations' % R, v),
        ('GET', '/allocation_candidates'): Req(
            'GET', '/allocation_candidates?resources=VCPU:1,DISK_GB:1', v),
        ('POST', '/reshaper'): Req(
            'POST', '/reshaper', v, {
                'inventories': {
                    R: {'resource_provider_generation': g[R],
                        'inventories': {
                            'MEMORY_MB': {'total': 4096, 'reserved': 512,
                                          'step_size': 64, 'min_unit': 64}}},
                    C: {'resource_provider_generation': g[C],
                        'inventories': {
                            'CUSTOM_A': {'total': 4},
                            'VCPU': {'total': 16, 'allocation_ratio': 2.0,
                                     'max_unit': 8}}}},
                'allocations': {
                    K1: {'allocations': {
                        R: {'resources': {'MEMORY_MB': 128}},
                        C: {'resources': {'VCPU': 2}},
                        S: {'resources': {'DISK_GB': 10}}},
                        'project_id': PROJECT, 'user_id': USER,
                        'consumer_generation': cg.get(K1),
                        'consumer_type': 'INSTANCE'},
                    K2: {'allocations': {
                        C: {'resources': {'VCPU': 1, 'CUSTOM_A': 1}}},
                        'project_id': 'proj-other',
                        'user_id': 'user-other',
                        'consumer_generation': cg.get(K2),
                        'consumer_type': 'MIGRATION'}}}),
    }
    return ops


MIN_VERSION = {
    '/resource_classes': 2, '/resource_classes/{name}': 2,
    '/traits': 6, '/traits/{name}': 6,
    '/resource_providers/{uuid}/traits': 6,
    '/usages': 9, '/allocation_candidates': 10, '/reshaper': 30,
    '/resource_providers/{uuid}/aggregates': 1,
}


def at_version(op, req, n):
    """the request of operations() rewritten for microversion 1.<n>, or None
    when the operation does not exist there (documented history of the
    request formats: api-ref / rest_api_version_history)"""
    import copy
    m, route = op
    lo = MIN_VERSION.get(route, 0)
    if op == ('POST', '/allocations'):
        lo = 13
    if op == ('DELETE', '/resource_providers/{uuid}/inventories'):
        lo = 5
    if n < lo:
        return None
    body = copy.deepcopy(req['body'])
    path = req['path']
    if op == ('PUT', '/resource_classes/{name}') and n < 7:
        path, body = '/resource_classes/CUSTOM_UNUSED', \
            {'name': 'CUSTOM_RENAMED'}
    if op == ('PUT', '/resource_providers/{uuid}') and n < 14:
        body.pop('parent_provider_uuid')
    if op == ('PUT', '/resource_providers/{uuid}/aggregates') and n < 19:
        body = body['aggregates']

    def entry(e):
        if n < 38:
            e.pop('consumer_type', None)
        if n < 28:
            e.pop('consumer_generation', None)
        if n < 8:
            e.pop('project_id', None)
            e.pop('user_id', None)
    if op == ('PUT', '/allocations/{consumer_uuid}'):
        entry(body)
        if n < 12:
            body['allocations'] = [
                {'resource_provider': {'uuid': rp},
                 'resources': x['resources']}
                for rp, x in body['allocations'].items()]
    if op == ('POST', '/allocations'):
        for e in body.values():
            entry(e)
    if op == ('POST', '/reshaper'):
        for e in body['allocations'].values():
            entry(e)
    return Req(m, path, '1.%d' % n, body, roles=req['roles'])


def alt_targets(op, req):
    """the same operation aimed at OTHER entities: ones that do not exist,
    and a consumer that holds nothing - whether a caller is authorised does
    not depend on what the request is about"""
    out = []
    path = req['path']
    unknown = '99999999-9999-4999-8999-999999999999'
    p2 = path
    for u in (R, C, S, E, K1, K2, K3):
        p2 = p2.replace(u, unknown)
    for n in ('CUSTOM_A', 'CUSTOM_T1', 'CUSTOM_UNUSED', 'CUSTOM_NEW2',
              'CUSTOM_NEW'):
        p2 = p2.replace('/' + n, '/CUSTOM_NOPE')
    if p2 != path:
        out.append(('unknown-entity', Req(req['method'], p2, req['version'],
                                          req['body'], roles=req['roles'])))
    # creating requests aimed at what exists already (create-or-confirm
    # routes answer success without creating anything)
    existing = None
    body = req['body']
    if op == ('PUT', '/traits/{name}'):
        existing = ('/traits/CUSTOM_T1', body)
    elif op == ('PUT', '/resource_classes/{name}'):
        existing = ('/resource_classes/CUSTOM_A', body)
    elif op == ('POST', '/resource_classes'):
        existing = (path, {'name': 'CUSTOM_A'})
    elif op == ('POST', '/resource_providers'):
        existing = (path, {'name': 'again', 'uuid': R})
    if existing:
        out.append(('existing-entity', Req(
            req['method'], existing[0], req['version'], existing[1],
            roles=req['roles'])))
    if '/allocations/' in path:
        out.append(('consumer-without-allocations', Req(
            req['method'], '/allocations/%s' % K3, req['version'],
            req['body'], roles=req['roles'])))
    if '/resource_providers/' in path and E not in path:
        # a provider without allocations, traits or aggregates
        p3 = path
        for u in (R, C, S):
            p3 = p3.replace(u, E)
        if p3 != path:
            out.append(('bare-provider', Req(
                req['method'], p3, req['version'], req['body'],
                roles=req['roles'])))
    return out


def concrete_path(template):
    """an existing-entity path for a routing-table template."""
    return (template.replace('{uuid}', R)
            .replace('{resource_class}', 'VCPU')
            .replace('{consumer_uuid}', K1)
            .replace('{name}', 'CUSTOM_A' if 'resource_classes' in template
                     else 'CUSTOM_T1'))
