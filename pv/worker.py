"""python -m pv.worker <PID> <spec.json> <out.json>: run one shard."""
import faulthandler
import os
import importlib
import json
import sys
import traceback


class Result(object):
    """Accumulator handed to every check's run_shard()."""

    def __init__(self, spec):
        self.spec = spec
        self.counters = {}
        self.distinct = set()
        self.samples = []
        self.violations = []
        self.extra = {}
        self._sigs = {}

    def count(self, name, n=1):
        self.counters[name] = self.counters.get(name, 0) + n

    def seen(self, *key):
        self.distinct.add('|'.join(str(k) for k in key))

    def sample(self, s, cap=3):
        if len(self.samples) < cap:
            self.samples.append(s)

    def violation(self, sig, what, witness=None, cap_per_sig=3):
        n = self._sigs.get(sig, 0)
        self._sigs[sig] = n + 1
        if n >= cap_per_sig:
            return
        self.violations.append({
            'sig': sig, 'what': what, 'witness': witness or {},
            'shard': self.spec})

    def dump(self):
        return {'counters': self.counters, 'distinct': sorted(self.distinct),
                'samples': self.samples, 'violations': self.violations,
                'extra': self.extra}


def main():
    faulthandler.enable()
    try:
        import resource
        lim = int(os.environ.get('PV_SHARD_MEM_GB', '6')) * 1024 ** 3
        resource.setrlimit(resource.RLIMIT_AS, (lim, lim))
    except Exception:
        pass
    pid, sp, op = sys.argv[1:4]
    with open(sp) as f:
        spec = json.load(f)
    mod = importlib.import_module('pv.checks.%s' % pid.lower())
    res = Result(spec)
    try:
        mod.run_shard(spec, res)
    except Exception:
        traceback.print_exc()
        sys.exit(3)
    with open(op + '.tmp', 'w') as f:
        json.dump(res.dump(), f, default=str)
    os.rename(op + '.tmp', op)


if __name__ == '__main__':
    main()
