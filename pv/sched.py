"""Deterministic transaction-granularity scheduler (DESIGN.md 4.3).

Every concurrent request runs in its own OS thread against the file database.
A thread parks whenever it is about to check out a connection while it holds
none (= it is about to open a top-level transaction); exactly one thread runs
at a time; the scheduler decides who is granted the next transaction.  An
independent reader opened inside a transaction is not a switch point.  After
each step in which something was committed the whole database is dumped, so a
run yields the sequence of committed states together with the responses."""
import threading

from sqlalchemy import event

from pv import dbdump


class Worker(object):
    def __init__(self, name, fn):
        self.name = name
        self.fn = fn
        self.thread = None
        self.depth = 0
        self.parked = False
        self.done = False
        self.result = None
        self.error = None
        self.txns = 0


class Scheduler(object):
    def __init__(self, app):
        self.app = app
        self.engine = app.engine
        self.cv = threading.Condition()
        self.workers = {}        # thread ident -> Worker
        self.by_name = {}
        self.running = None      # name of the thread allowed to run
        self.active = False
        self.commits = 0
        pool = self.engine.pool
        event.listen(pool, 'checkout', self._checkout)
        event.listen(pool, 'checkin', self._checkin)
        event.listen(self.engine, 'commit', self._commit)

    # -- events (run in worker threads) -------------------------------------
    def _me(self):
        return self.workers.get(threading.get_ident())

    def _checkout(self, dbapi_con, record, proxy):
        w = self._me()
        if w is None or not self.active:
            return
        if w.depth == 0:
            with self.cv:
                w.parked = True
                self.running = None
                self.cv.notify_all()
                while self.running != w.name:
                    self.cv.wait()
                w.parked = False
            w.txns += 1
        w.depth += 1

    def _checkin(self, dbapi_con, record):
        w = self._me()
        if w is None or not self.active:
            return
        w.depth -= 1

    def _commit(self, conn):
        if self.active and self._me() is not None:
            self.commits += 1

    # -- driving --------------------------------------------------------------
    def _thread_main(self, w):
        with self.cv:
            while self.running != w.name:
                self.cv.wait()
        try:
            w.result = w.fn()
        except BaseException as exc:   # noqa
            w.error = exc
        with self.cv:
            w.done = True
            self.running = None
            self.cv.notify_all()

    def _grant(self, name, timeout=60):
        with self.cv:
            self.running = name
            self.cv.notify_all()
            ok = self.cv.wait_for(lambda: self.running is None, timeout)
        if not ok:
            raise RuntimeError('scheduler watchdog: %s did not yield' % name)

    def run(self, fns, prefix=(), dump_states=True):
        """fns: ordered {name: callable}.  prefix: thread names to grant, in
        order; afterwards the default policy continues the last thread while
        it is runnable, else the first runnable one (no further preemption).

        Returns dict(results, errors, trace, states, order)
        trace: list of (chosen, sorted runnable names)
        states: list of (step index, chosen, Dump) after steps that committed
        """
        self.workers = {}
        self.by_name = {}
        self.commits = 0
        self.active = True
        ws = []
        for name, fn in fns.items():
            w = Worker(name, fn)
            w.thread = threading.Thread(target=self._thread_main, args=(w,),
                                        name='pv-' + name, daemon=True)
            ws.append(w)
            self.by_name[name] = w
        try:
            # start one after the other: each runs up to its first checkout
            for w in ws:
                w.thread.start()
                self.workers[w.thread.ident] = w
                self._grant(w.name)
            trace = []
            states = []
            last = None
            step = 0
            pi = 0
            while True:
                runnable = sorted(w.name for w in ws if not w.done)
                if not runnable:
                    break
                choice = None
                while pi < len(prefix) and choice is None:
                    if prefix[pi] in runnable:
                        choice = prefix[pi]
                    pi += 1
                if choice is None:
                    choice = last if last in runnable else runnable[0]
                trace.append((choice, runnable))
                c0 = self.commits
                self._grant(choice)
                if dump_states and self.commits != c0:
                    states.append((step, choice, dbdump.take(
                        self.app.db_path)))
                last = choice
                step += 1
        finally:
            self.active = False
            with self.cv:
                self.running = '*'   # release anything still waiting
                self.cv.notify_all()
        for w in ws:
            w.thread.join(5)
        return {
            'results': {w.name: w.result for w in ws},
            'errors': {w.name: repr(w.error) for w in ws if w.error},
            'trace': trace, 'states': states,
            'order': ''.join(c for c, _ in trace),
            'txns': {w.name: w.txns for w in ws},
        }


def preemptions(trace_names, runnable_sets):
    n = 0
    for i in range(1, len(trace_names)):
        if trace_names[i] != trace_names[i - 1] and \
                trace_names[i - 1] in runnable_sets[i]:
            n += 1
    return n


def explore(run_fn, max_preemptions=2, max_schedules=400, rng=None,
            random_extra=0):
    """Enumerate schedules by re-execution.  run_fn(prefix) -> run result.
    Yields (prefix, result).  All schedules with <= max_preemptions are
    produced (up to max_schedules), then random_extra random ones."""
    seen_orders = set()
    queue = [()]
    queued = {()}
    count = 0
    while queue and count < max_schedules:
        prefix = queue.pop(0)
        result = run_fn(prefix)
        count += 1
        trace = result['trace']
        names = [c for c, _ in trace]
        sets = [r for _, r in trace]
        order = tuple(names)
        fresh = order not in seen_orders
        seen_orders.add(order)
        yield prefix, result, fresh
        for i in range(len(prefix), len(trace)):
            for alt in sets[i]:
                if alt == names[i]:
                    continue
                newp = tuple(names[:i]) + (alt,)
                if newp in queued:
                    continue
                if preemptions(list(newp), sets[:i + 1]) > max_preemptions:
                    continue
                queued.add(newp)
                queue.append(newp)
    for _ in range(random_extra):
        if rng is None:
            break
        # random schedule: a long random prefix
        names = sorted({n for o in seen_orders for n in o})
        if not names:
            break       # no request ever reached the database: one schedule
        prefix = tuple(rng.choice(names) for _ in range(40))
        result = run_fn(prefix)
        order = tuple(c for c, _ in result['trace'])
        fresh = order not in seen_orders
        seen_orders.add(order)
        yield prefix, result, fresh
