"""O3: SQL statement stream of placement's engine (SQLAlchemy events)."""
import threading

from sqlalchemy import event


class SqlWatch(object):
    """Records (kind, text, params) of every statement / BEGIN / COMMIT /
    ROLLBACK on the engine while armed.  A hook callable may be installed that
    is invoked at every event *before* it happens (fault / crash injection)."""

    def __init__(self, engine):
        self.engine = engine
        self.events = []
        self.armed = False
        self.hook = None
        self.lock = threading.Lock()
        event.listen(engine, 'before_cursor_execute', self._before)
        event.listen(engine, 'after_cursor_execute', self._after)
        event.listen(engine, 'begin', self._begin)
        event.listen(engine, 'commit', self._commit)
        event.listen(engine, 'rollback', self._rollback)
        # Injection points *inside* SQLAlchemy's DBAPI error handling, so
        # that an injected driver error is wrapped and filtered (oslo.db)
        # exactly like a real one: the before_* events above run outside it.
        self.inject_next = None
        event.listen(engine, 'do_execute', self._do_execute)
        event.listen(engine, 'do_executemany', self._do_execute)
        event.listen(engine, 'do_execute_no_params', self._do_execute3)
        d = engine.dialect
        if not getattr(d, '_pv_patched', False):
            for name in ('do_begin', 'do_commit', 'do_rollback'):
                orig = getattr(d, name)

                def wrapper(dbapi_connection, _orig=orig, _w=self):
                    _w._raise_pending()
                    return _orig(dbapi_connection)
                setattr(d, name, wrapper)
            d._pv_patched = True

    def start(self, hook=None):
        self.events = []
        self.hook = hook
        self.armed = True

    def stop(self):
        self.armed = False
        self.hook = None
        return self.events

    def _raise_pending(self):
        exc = self.inject_next
        if exc is not None:
            self.inject_next = None
            raise exc

    def _do_execute(self, cursor, statement, parameters, context):
        self._raise_pending()

    def _do_execute3(self, cursor, statement, context):
        self._raise_pending()

    def _emit(self, kind, text, params, conn, phase='before'):
        if not self.armed:
            return
        idx = None
        if phase == 'before':
            with self.lock:
                idx = len(self.events)
                self.events.append({'kind': kind, 'sql': text,
                                    'thread': threading.get_ident()})
        if self.hook is not None:
            self.hook(phase, kind, text, params, conn,
                      idx if idx is not None else len(self.events) - 1)

    def _before(self, conn, cursor, statement, parameters, context,
                executemany):
        self._emit('stmt', statement, parameters, conn)

    def _after(self, conn, cursor, statement, parameters, context,
               executemany):
        self._emit('stmt', statement, parameters, conn, phase='after')

    def _begin(self, conn):
        self._emit('begin', 'BEGIN', None, conn)

    def _commit(self, conn):
        self._emit('commit', 'COMMIT', None, conn)

    def _rollback(self, conn):
        self._emit('rollback', 'ROLLBACK', None, conn)


def is_write(sql):
    s = sql.lstrip().upper()
    return s.startswith(('INSERT', 'UPDATE', 'DELETE', 'REPLACE'))


def kind_of(sql):
    s = sql.lstrip().split(None, 3)
    if not s:
        return '?'
    head = s[0].upper()
    up = sql.upper()
    if head == 'SELECT':
        import re
        m = re.search(r'\bFROM\s+([a-z_]+)', sql)
        return 'SELECT ' + (m.group(1) if m else '?')
    if head == 'INSERT':
        return 'INSERT ' + s[2] if len(s) > 2 else 'INSERT'
    if head == 'UPDATE':
        return 'UPDATE ' + s[1]
    if head == 'DELETE':
        return 'DELETE ' + s[2] if len(s) > 2 else 'DELETE'
    return head if head in ('BEGIN', 'COMMIT', 'ROLLBACK', 'PRAGMA') \
        else up[:20]
