"""State/response oracles for the history-based properties.  Pure functions of
(dump before, request, response, dump after): rows only, no placement code."""
import uuid as uuidlib
from fractions import Fraction

from pv import dbdump
from pv.routes import classify, is_alloc_write, placed, vnum

READ_METHODS = ('GET', 'HEAD')


class Step(object):
    __slots__ = ('req', 'resp', 'before', 'after', 'route', 'params',
                 'query', 'hist')

    def __init__(self, req, resp, before, after, hist=None):
        self.req = req
        self.resp = resp
        self.before = before
        self.after = after
        self.route, self.params, self.query = classify(req['path'])
        self.hist = hist

    @property
    def ok(self):
        return 200 <= self.resp.status < 300

    def rname(self):
        return '%s %s' % (self.req['method'], self.route)

    def witness(self, **kw):
        w = {'request': self.req.brief(), 'response': self.resp.brief()}
        if self.hist is not None:
            w['history'] = self.hist()
        w.update(kw)
        return w


# ---------------------------------------------------------------------------
# capacity helpers
# ---------------------------------------------------------------------------
def capacity_cmp(inv, used):
    """-> 'fits' | 'over' | 'ambiguous' for used <= (total-reserved)*ratio,
    judged in IEEE doubles and in exact rationals over the decimal text."""
    base = inv['total'] - inv['reserved']
    ratio = inv['allocation_ratio']
    f_fits = used <= base * ratio
    e_fits = used <= base * Fraction(repr(float(ratio)))
    if f_fits != e_fits:
        return 'ambiguous'
    return 'fits' if f_fits else 'over'


def util_class(inv, used):
    if inv is None:
        return 'noinv'
    if used == 0:
        return 'empty'
    c = capacity_cmp(inv, used)
    if c == 'over':
        return 'over'
    if capacity_cmp(inv, used + 1) != 'fits':
        return 'exact'
    return 'partial'


# ---------------------------------------------------------------------------
# C01
# ---------------------------------------------------------------------------
def c01(step, res):
    before, after = step.before, step.after
    ub, ua = before.usage(), after.usage()
    rn = step.rname()
    if is_alloc_write(step.req) and step.ok:
        pl = placed(step.req)
        res.count('accepted_alloc_writes')
        if pl is None:
            res.count('accepted_unparsed')
        else:
            ncons = len(pl)
            pairs = {}
            for c, m in pl.items():
                for pair, amt in m.items():
                    pairs.setdefault(pair, []).append(amt)
            if step.route == 'allocs' and ncons > 1:
                res.count('accepted_multi_consumer_post')
            if step.route == 'reshaper' and any(pl.values()):
                res.count('accepted_reshaper_with_allocs')
            # what each consumer of the request now HOLDS on a pair (all
            # rows of that consumer/provider/class together) obeys the unit
            # constraints as well - judged on the stored state, not on the
            # request text
            for (c, rp, rc), a in after.allocs.items():
                inv = after.inventories.get((rp, rc))
                if c not in pl or inv is None or a <= 0:
                    continue
                res.count('stored_amounts_judged')
                bad = 'min_unit' if a < inv['min_unit'] else \
                    'max_unit' if a > inv['max_unit'] else \
                    'step_size' if a % inv['step_size'] != 0 else None
                if bad:
                    res.violation(
                        'C01|unit-constraint-stored|%s|%s' % (rn, bad),
                        'after accepted %s consumer %s holds %d on %s/%s '
                        'violating %s (inventory %r)' % (rn, c, a, rp, rc,
                                                         bad, inv),
                        step.witness(pair=[rp, rc]))
            nrps = len({p for p, _ in pairs})
            for pair, amts in pairs.items():
                inv = after.inventories.get(pair)
                used = ua.get(pair, 0)
                if any(a > 0 for a in amts) and inv is None:
                    res.violation(
                        'C01|placed-without-inventory|%s' % rn,
                        'accepted %s placed %r on %s/%s which has no '
                        'inventory' % (rn, amts, pair[0], pair[1]),
                        step.witness(pair=list(pair)))
                    continue
                if inv is None:
                    continue
                unit = 'ok'
                for a in amts:
                    if a <= 0:
                        continue
                    if a < inv['min_unit']:
                        unit = 'min_unit'
                    elif a > inv['max_unit']:
                        unit = 'max_unit'
                    elif a % inv['step_size'] != 0:
                        unit = 'step_size'
                    if unit != 'ok':
                        res.violation(
                            'C01|unit-constraint|%s|%s' % (rn, unit),
                            'accepted %s placed %d on %s/%s violating %s '
                            '(inventory %r)' % (rn, a, pair[0], pair[1],
                                                unit, inv),
                            step.witness(pair=list(pair)))
                cmp_ = capacity_cmp(inv, used)
                res.count('pairs_judged')
                if cmp_ == 'ambiguous':
                    res.count('boundary_ambiguous')
                elif cmp_ == 'over':
                    res.violation(
                        'C01|overcommit-after-accepted-write|%s' % rn,
                        'after accepted %s usage %d on %s/%s exceeds '
                        'capacity of %r' % (rn, used, pair[0], pair[1], inv),
                        step.witness(pair=list(pair), used=used))
                uc = util_class(inv, used)
                if uc == 'exact':
                    res.count('exact_fit_acceptances')
                res.seen(rn, min(ncons, 3), min(nrps, 3),
                         util_class(before.inventories.get(pair),
                                    ub.get(pair, 0)), uc,
                         'min>1' if inv['min_unit'] > 1 else '',
                         'step>1' if inv['step_size'] > 1 else '',
                         'maxed' if max(amts) == inv['max_unit'] else '')
    elif is_alloc_write(step.req) and step.resp.status == 409:
        res.count('rejected_409_alloc_writes')

    # any step: over-commit may only arise from an inventory change of that
    # pair, and while over-committed usage never grows
    for pair, used in ua.items():
        inv_a = after.inventories.get(pair)
        if inv_a is None:
            continue
        if capacity_cmp(inv_a, used) != 'over':
            continue
        res.count('overcommitted_pair_steps')
        inv_b = before.inventories.get(pair)
        used_b = ub.get(pair, 0)
        if inv_b is None:
            continue
        if inv_b == inv_a and capacity_cmp(inv_b, used_b) == 'fits':
            res.violation(
                'C01|overcommit-without-inventory-change|%s' % rn,
                '%s made %s/%s over-committed (%d -> %d used) without '
                'changing its inventory %r' % (rn, pair[0], pair[1],
                                               used_b, used, inv_a),
                step.witness(pair=list(pair)))
        if capacity_cmp(inv_b, used_b) == 'over' and used > used_b:
            res.violation(
                'C01|usage-grew-while-overcommitted|%s' % rn,
                '%s grew usage of over-committed %s/%s from %d to %d'
                % (rn, pair[0], pair[1], used_b, used),
                step.witness(pair=list(pair)))


# ---------------------------------------------------------------------------
# C08
# ---------------------------------------------------------------------------
def c08_state(d):
    """list of (kind, detail) dangling records in a dump."""
    out = list(d.dangling)
    for (c, rp, rc), used in d.allocs.items():
        if rp in d.providers and rc in d.classes and \
                (rp, rc) not in d.inventories:
            out.append(('allocation-without-inventory',
                        '%s on %s/%s' % (c, rp, rc)))
        if c not in d.consumers:
            out.append(('allocation-without-consumer', c))
    for k, n in d.inv_rows.items():
        if n > 1:
            out.append(('duplicate-inventory', '%s/%s' % k))
    return out


def c08(step, res):
    before, after = step.before, step.after
    rn = step.rname()
    res.count('states_checked')
    for kind, detail in c08_state(after):
        res.violation('C08|%s|%s' % (kind, rn),
                      'after %s (%d): %s %s' % (rn, step.resp.status, kind,
                                                detail),
                      step.witness())
    if step.req['method'] != 'DELETE':
        return
    st = step.resp.status
    changed = None

    def unchanged():
        nonlocal changed
        if changed is None:
            changed = dbdump.diff(before, after)
        return not changed

    def refuse(kind, statuses):
        res.count('refusals_due')
        res.seen('refusal', kind)
        if st not in statuses:
            res.violation(
                'C08|delete-not-refused|%s|%s' % (kind, rn),
                '%s of an entity in use (%s) answered %d, expected %s'
                % (rn, kind, st, statuses), step.witness())
        elif not unchanged():
            res.violation(
                'C08|refused-delete-changed-state|%s|%s' % (kind, rn),
                '%s refused (%d) but state changed: %s' % (rn, st,
                                                           changed[:6]),
                step.witness())

    if step.route == 'rp':
        u = step.params['uuid']
        if u in before.providers:
            has_alloc = any(rp == u for (_, rp, _) in before.allocs)
            has_child = any(p['parent'] == u
                            for p in before.providers.values())
            if has_alloc:
                refuse('provider-with-allocations', (409,))
            elif has_child:
                refuse('provider-with-children', (409,))
            elif st == 204:
                res.count('cascades')
                n_inv = sum(1 for (rp, _) in before.inventories if rp == u)
                n_assoc = sum(1 for (rp, _) in before.rp_traits if rp == u) \
                    + sum(1 for (rp, _) in before.rp_aggs if rp == u)
                res.seen('cascade', 'inv' if n_inv else '',
                         'assoc' if n_assoc else '')
                if n_inv or n_assoc:
                    res.count('cascades_nontrivial')
    elif step.route == 'inv':
        u, rc = step.params['uuid'], step.params['rc']
        if any(rp == u and k == rc for (_, rp, k) in before.allocs):
            refuse('inventory-with-allocations', (409,))
    elif step.route == 'invs':
        u = step.params['uuid']
        if vnum(step.req['version']) >= 5 and \
                any(rp == u for (_, rp, _) in before.allocs):
            refuse('inventories-with-allocations', (409,))
    elif step.route == 'rc':
        n = step.params['name']
        if n in before.classes:
            if before.classes[n] < 10000 and not n.startswith('CUSTOM_'):
                refuse('standard-class', (400,))
            elif any(k == n for (_, k) in before.inventories):
                refuse('class-with-inventory', (409,))
    elif step.route == 'trait':
        n = step.params['name']
        if n in before.traits:
            if not n.startswith('CUSTOM_'):
                refuse('standard-trait', (400,))
            elif any(t == n for (_, t) in before.rp_traits):
                refuse('trait-associated', (409,))


# ---------------------------------------------------------------------------
# C09
# ---------------------------------------------------------------------------
def forest_problems(d):
    out = []
    for u, p in d.providers.items():
        if p['parent'] is not None and p['parent'] not in d.providers:
            out.append(('missing-parent', u))
            continue
        top = d.top_of(u)
        if top is None:
            out.append(('cycle', u))
        elif p['root'] != top:
            out.append(('wrong-root', '%s root=%s top=%s' % (u, p['root'],
                                                             top)))
    return out


def forest_shape(d):
    ch = d.children()

    def canon(u, depth=0):
        if depth > 12:
            return '(...)'
        return '(' + ''.join(sorted(canon(c, depth + 1)
                                    for c in ch.get(u, []))) + ')'
    return ''.join(sorted(canon(u) for u, p in d.providers.items()
                          if p['parent'] is None))


def subtree_size(d, u):
    ch = d.children()
    n, stack = 0, [u]
    seen = set()
    while stack:
        x = stack.pop()
        if x in seen:
            continue
        seen.add(x)
        n += 1
        stack.extend(ch.get(x, []))
    return n


def c09(step, res):
    before, after = step.before, step.after
    rn = step.rname()
    res.count('states_checked')
    for kind, detail in forest_problems(after):
        res.violation('C09|%s|%s' % (kind, rn),
                      'after %s (%d): %s %s' % (rn, step.resp.status, kind,
                                                detail), step.witness())
    # the parent links are those the accepted requests asked for: a request
    # changes the link of the provider it names, to the parent it names, and
    # no other link
    body = step.req['body'] if isinstance(step.req['body'], dict) else {}
    v = vnum(step.req['version'])
    want = {u: p['parent'] for u, p in before.providers.items()}
    if step.ok and step.route in ('rp', 'rps') and \
            step.req['method'] in ('POST', 'PUT', 'DELETE'):
        def canon(x):
            try:
                return str(uuidlib.UUID(x)) if isinstance(x, str) else x
            except ValueError:
                return x
        if step.req['method'] == 'PUT' and step.route == 'rp':
            u = canon(step.params['uuid'])
            if u in want and v >= 14 and 'parent_provider_uuid' in body:
                want[u] = canon(body['parent_provider_uuid'])
        elif step.req['method'] == 'DELETE' and step.route == 'rp':
            want.pop(canon(step.params['uuid']), None)
        elif step.req['method'] == 'POST':
            for u in set(after.providers) - set(before.providers):
                want[u] = canon(body.get('parent_provider_uuid')) \
                    if v >= 14 else None
    res.count('parent_links_compared', len(want))
    got = {u: p['parent'] for u, p in after.providers.items()}
    if got != want:
        bad = sorted(u for u in set(got) | set(want)
                     if got.get(u, 0) != want.get(u, 0))
        res.violation(
            'C09|parent-link-not-as-requested|%s' % rn,
            'after %s (%d) the parent links of %s are %r; the accepted '
            'requests ask for %r' % (rn, step.resp.status, bad[:4],
                                     [got.get(u, 'absent') for u in bad[:4]],
                                     [want.get(u, 'absent') for u in bad[:4]]),
            step.witness())
    if step.route not in ('rp', 'rps') or step.req['method'] in READ_METHODS:
        return
    st = step.resp.status
    must_refuse = None
    if step.req['method'] == 'POST' and step.route == 'rps' and v >= 14:
        par = body.get('parent_provider_uuid')
        if par is not None and (par not in before.providers or
                                par == body.get('uuid')):
            must_refuse = 'missing-or-self-parent'
    elif step.req['method'] == 'PUT' and step.route == 'rp' and v >= 14 \
            and step.params['uuid'] in before.providers and \
            'parent_provider_uuid' in body:
        u = step.params['uuid']
        cur = before.providers[u]['parent']
        par = body['parent_provider_uuid']
        if par is not None and par not in before.providers:
            must_refuse = 'missing-parent'
        elif par is not None:
            # loop: new parent inside own subtree (incl. self)
            x, inside = par, False
            hops = 0
            while x is not None and hops < 100:
                if x == u:
                    inside = True
                    break
                x = before.providers[x]['parent'] \
                    if x in before.providers else None
                hops += 1
            if inside:
                must_refuse = 'loop'
            elif cur is not None and par != cur and v < 37:
                must_refuse = 'reparent-before-1.37'
        elif par is None and cur is not None and v < 37:
            must_refuse = 'unparent-before-1.37'
        if must_refuse is None and st == 200 and par != cur:
            res.count('moves')
            n = subtree_size(before, u)
            if n >= 3:
                res.count('moves_subtree_ge2_descendants')
            res.seen('move', 'to-top' if par is None else
                     ('first-parent' if cur is None else 'reparent'),
                     min(n, 4))
    elif step.req['method'] == 'DELETE' and step.route == 'rp':
        u = step.params['uuid']
        if any(p['parent'] == u for p in before.providers.values()):
            must_refuse = 'delete-with-children'
    if must_refuse:
        res.count('refusals_due')
        res.seen('refusal', must_refuse)
        if st not in (400, 409):
            res.violation(
                'C09|not-refused|%s|%s' % (must_refuse, rn),
                '%s (%s) answered %d, expected 400/409' % (rn, must_refuse,
                                                            st),
                step.witness())
        else:
            ch = dbdump.diff(before, after)
            if ch:
                res.violation(
                    'C09|refused-but-changed|%s|%s' % (must_refuse, rn),
                    '%s refused (%d) but changed: %s' % (rn, st, ch[:6]),
                    step.witness())
    if step.ok:
        res.seen('shape', forest_shape(after))


def c09_views(client, d, res, rng, version='1.39'):
    """Reported parent/root and in_tree listings against the table."""
    from pv.client import Req
    us = sorted(d.providers)
    if not us:
        return
    for u in rng.sample(us, min(3, len(us))):
        r = client.send(Req('GET', '/resource_providers/%s' % u, version))
        res.count('views_checked')
        p = d.providers[u]
        j = r.json if r.status == 200 else None
        if not isinstance(j, dict) or \
                j.get('parent_provider_uuid') != p['parent'] or \
                j.get('root_provider_uuid') != d.top_of(u):
            res.violation(
                'C09|reported-parent-or-root-differs|GET rp',
                'GET provider %s reports parent=%r root=%r, table has '
                'parent=%r top=%r (status %d)' % (
                    u, (j or {}).get('parent_provider_uuid'),
                    (j or {}).get('root_provider_uuid'), p['parent'],
                    d.top_of(u), r.status),
                {'history': client.history()})
    u = rng.choice(us)
    r = client.send(Req('GET', '/resource_providers?in_tree=%s' % u, version))
    res.count('views_checked')
    want = {x for x in us if d.top_of(x) == d.top_of(u)}
    got = None
    if r.status == 200 and isinstance(r.json, dict):
        got = {x['uuid'] for x in r.json.get('resource_providers', [])}
    if got != want:
        res.violation(
            'C09|in_tree-listing-differs|GET rps',
            'in_tree=%s lists %r, tree by parent links is %r' % (
                u, sorted(got or []), sorted(want)),
            {'history': client.history()})
    # every listing form reports the same parent and root as the table: the
    # plain list, in_tree alone, and in_tree combined with another filter
    # that keeps only part of the tree
    if vnum(version) < 14:
        return
    x = rng.choice(sorted(want))
    for what, path in (
            ('plain', '/resource_providers'),
            ('in_tree', '/resource_providers?in_tree=%s' % u),
            ('in_tree+uuid', '/resource_providers?in_tree=%s&uuid=%s' % (
                u, x)),
            ('in_tree+name', '/resource_providers?in_tree=%s&name=%s' % (
                d.top_of(u), d.providers[x]['name'])),
            ('uuid', '/resource_providers?uuid=%s' % x)):
        r = client.send(Req('GET', path, version))
        res.count('views_checked')
        if r.status != 200 or not isinstance(r.json, dict):
            continue
        for e in r.json.get('resource_providers', []):
            p = d.providers.get(e['uuid'])
            if p is None:
                continue
            if e.get('parent_provider_uuid') != p['parent'] or \
                    e.get('root_provider_uuid') != d.top_of(e['uuid']):
                res.violation(
                    'C09|reported-parent-or-root-differs|GET rps|%s' % what,
                    '%s reports parent=%r root=%r for %s, table has '
                    'parent=%r top=%r' % (
                        path, e.get('parent_provider_uuid'),
                        e.get('root_provider_uuid'), e['uuid'], p['parent'],
                        d.top_of(e['uuid'])),
                    {'history': client.history()})
                break


# ---------------------------------------------------------------------------
# C10
# ---------------------------------------------------------------------------
def _rp_facets(d, u):
    # inventories keyed by class *id*: renaming a class (PUT
    # /resource_classes/{name} at 1.2-1.6) changes no provider
    pid = d.providers[u]['id']
    inv = {r['resource_class_id']: tuple(sorted(
        (k, v) for k, v in r.items() if k != 'id'))
        for r in d.raw['inventories'] if r['resource_provider_id'] == pid}
    tr = frozenset(t for (rp, t) in d.rp_traits if rp == u)
    ag = frozenset(a for (rp, a) in d.rp_aggs if rp == u)
    return inv, tr, ag


def c10_concurrent(step, res):
    """C10 clauses that are well defined on one committing step of a
    concurrent run (the 'returned == subsequently read' clause is not: another
    request may commit between the write and any read)."""
    return c10(step, res, returned_clause=False)


def c10(step, res, returned_clause=True):
    before, after = step.before, step.after
    rn = step.rname()
    st = step.resp.status
    res.count('requests_judged')
    is_read = step.req['method'] in READ_METHODS
    v = vnum(step.req['version'])
    # providers present (same row) in both dumps
    for u, pa in after.providers.items():
        pb = before.providers.get(u)
        if pb is None or pb['id'] != pa['id']:
            continue
        gb, ga = pb['generation'], pa['generation']
        if ga < gb:
            res.violation('C10|provider-generation-decreased|%s' % rn,
                          '%s: provider %s generation %d -> %d'
                          % (rn, u, gb, ga), step.witness())
        if (is_read or st >= 400) and ga != gb:
            res.violation(
                'C10|generation-changed-by-%s|%s' % (
                    'read' if is_read else 'error', rn),
                '%s answered %d changed provider %s generation %d -> %d'
                % (rn, st, u, gb, ga), step.witness())
        if step.ok and not is_read:
            ib, tb, ab = _rp_facets(before, u)
            ia, ta, aa = _rp_facets(after, u)
            what = []
            if ib != ia:
                what.append('inventories')
            if tb != ta:
                what.append('traits')
            if ab != aa and (step.route != 'rp_aggs' or v >= 19):
                what.append('aggregates')
            if what:
                res.count('provider_changes_judged')
                res.seen(rn, 'provider', ','.join(what))
                if not ga > gb:
                    res.violation(
                        'C10|provider-changed-without-generation|%s|%s'
                        % (rn, ','.join(what)),
                        '%s changed %s of provider %s, generation %d -> %d'
                        % (rn, what, u, gb, ga), step.witness())
    for c, ca in after.consumers.items():
        cb = before.consumers.get(c)
        if cb is None or cb['id'] != ca['id']:
            continue
        if ca['generation'] < cb['generation']:
            res.violation('C10|consumer-generation-decreased|%s' % rn,
                          '%s: consumer %s generation %d -> %d' % (
                              rn, c, cb['generation'], ca['generation']),
                          step.witness())
        if (is_read or st >= 400) and ca['generation'] != cb['generation']:
            res.violation(
                'C10|generation-changed-by-%s|%s' % (
                    'read' if is_read else 'error', rn),
                '%s answered %d changed consumer %s generation %d -> %d'
                % (rn, st, c, cb['generation'], ca['generation']),
                step.witness())
    if step.ok and is_alloc_write(step.req):
        pl = placed(step.req) or {}
        rps = {rp for m in pl.values() for (rp, rc), amt in m.items()
               if amt > 0}
        for u in rps:
            pb, pa = before.providers.get(u), after.providers.get(u)
            if pb and pa and pb['id'] == pa['id']:
                res.count('placements_judged')
                res.seen(rn, 'placed-on-provider')
                if not pa['generation'] > pb['generation']:
                    res.violation(
                        'C10|placement-without-provider-generation|%s' % rn,
                        '%s placed resources on %s, generation %d -> %d' % (
                            rn, u, pb['generation'], pa['generation']),
                        step.witness())
        for c in pl:
            cb, ca = before.consumers.get(c), after.consumers.get(c)
            had = {k: u for k, u in before.allocs.items() if k[0] == c}
            has = {k: u for k, u in after.allocs.items() if k[0] == c}
            if not had and not has:
                # nothing written for a consumer that held nothing: a write
                # that changes nothing is not judged
                continue
            if cb and ca and cb['id'] == ca['id']:
                res.count('consumer_writes_judged')
                res.seen(rn, 'consumer-rewritten')
                if not ca['generation'] > cb['generation']:
                    body = step.req['body'] if isinstance(
                        step.req['body'], dict) else {}
                    e = body if step.route == 'alloc' else (
                        (body.get('allocations') or {}).get(c)
                        if step.route == 'reshaper' else body.get(c))
                    mech = ''
                    if isinstance(e, dict) and 'consumer_generation' in e \
                            and e['consumer_generation'] is None and \
                            not any(a > 0 for a in pl[c].values()):
                        # a creator (generation null) with nothing to write
                        # that meets allocations: only possible when another
                        # request wrote on the record this one auto-created
                        # (known finding D22) - one after the other, null for
                        # an existing consumer is refused
                        mech = '|auto-created-consumer-adopted-by-other-' \
                               'writer'
                    res.violation(
                        'C10|consumer-written-without-generation|%s%s' % (
                            rn, mech),
                        '%s wrote consumer %s, generation %d -> %d' % (
                            rn, c, cb['generation'], ca['generation']),
                        step.witness())
    # generation returned by a write == generation subsequently read
    if returned_clause and step.ok and not is_read and \
            isinstance(step.resp.json, dict):
        j = step.resp.json
        u = step.params.get('uuid')
        g = None
        if step.route in ('rp', 'rps'):
            g = j.get('generation')
            u = j.get('uuid', u)
        elif step.route in ('invs', 'inv', 'rp_traits', 'rp_aggs'):
            g = j.get('resource_provider_generation')
        if g is not None and u in after.providers:
            res.count('returned_generations_judged')
            res.seen(rn, 'returned-generation')
            if g != after.providers[u]['generation']:
                res.violation(
                    'C10|returned-generation-differs|%s' % rn,
                    '%s returned generation %r, stored is %d' % (
                        rn, g, after.providers[u]['generation']),
                    step.witness())


# ---------------------------------------------------------------------------
# C04
# ---------------------------------------------------------------------------
def _norm_inv(f):
    d = {'reserved': 0, 'min_unit': 1, 'max_unit': 0x7FFFFFFF,
         'step_size': 1, 'allocation_ratio': 1.0}
    d.update({k: v for k, v in f.items()
              if k not in ('resource_provider_generation',
                           'resource_class')})
    d['allocation_ratio'] = float(d['allocation_ratio'])
    return d


def reject_reason(step):
    """coarse reason of a rejection, from the error document."""
    j = step.resp.json
    code, detail = None, ''
    try:
        e = j['errors'][0]
        code, detail = e.get('code'), str(e.get('detail', ''))
    except Exception:
        pass
    dl = detail.lower()
    st = step.resp.status
    if st == 400 and ('json does not validate' in dl or
                      'malformed json' in dl):
        return 'schema'
    if 'allocation for resource provider' in dl and 'does not exist' in dl:
        return 'unknown-provider'
    if 'no such resource class' in dl:
        return 'unknown-class'
    if 'does not exist' in dl or 'no such resource class' in dl or \
            'not found' in dl:
        return 'unknown-%d' % st
    if 'consumer generation conflict' in dl:
        return 'consumer-generation'
    if code == 'placement.concurrent_update' or \
            'generation conflict' in dl:
        return 'provider-generation'
    if code == 'placement.inventory.inuse' or 'in use' in dl:
        return 'inventory-in-use'
    if 'violates min_unit' in dl or 'step_size' in dl:
        return 'unit'
    if 'capacity' in dl or 'exceeded' in dl:
        return 'capacity'
    if 'inventory' in dl and st == 409:
        return 'no-inventory'
    return '%d:%s' % (st, code or '-')


def c04_concurrent(req, resp, own, wit, res, final, pid='C04'):
    """concurrent form of the first clause: the NET effect of all the commits
    made by a rejected request (first value before its first change of a key
    vs value after its last change of that key) is empty.  Only its own
    commits are looked at, so what other requests did in between is not
    attributed to it."""
    if req['method'] not in READ_METHODS and 200 <= resp.status < 300 and \
            is_alloc_write(req) and own and isinstance(req['body'], dict):
        # an ACCEPTED allocation write: right after its last commit the
        # consumers it placed carry the project / user / type it named
        step = Step(req, resp, None, None)
        body = req['body']
        after = own[-1][1]
        res.count('concurrent_accepted_judged')
        for c, m_ in (placed(req) or {}).items():
            e = body if step.route == 'alloc' else (
                (body.get('allocations') or {}).get(c)
                if step.route == 'reshaper' else body.get(c))
            cur = after.consumers.get(c)
            if not any(a > 0 for a in m_.values()) or cur is None or \
                    not isinstance(e, dict):
                continue
            bad = ['%s %r, request says %r' % (col, cur[col], e[key])
                   for key, col in (('project_id', 'project'),
                                    ('user_id', 'user'),
                                    ('consumer_type', 'type'))
                   if key in e and cur[col] != e[key]]
            if bad:
                res.violation(
                    '%s|accepted-write-partial-effect|concurrent|%s' % (
                        pid, step.rname()),
                    '%s accepted (%d) under concurrency but consumer %s '
                    'has %s' % (step.rname(), resp.status, c,
                                '; '.join(bad)), wit)
        return
    if req['method'] in READ_METHODS or resp.status < 400 or \
            resp.status >= 500:
        return
    step = Step(req, resp, None, None)
    res.count('concurrent_rejected_judged')
    first, last = {}, {}
    for before, after in own:
        ca, cb = before.core(), after.core()
        for sect in ca:
            va, vb = ca[sect], cb[sect]
            if va == vb:
                continue
            if not isinstance(va, dict):
                va = {k: True for k in va}
                vb = {k: True for k in vb}
            for k in set(va) | set(vb):
                if va.get(k) != vb.get(k):
                    first.setdefault((sect, k), va.get(k))
                    last[(sect, k)] = vb.get(k)
    if own:
        res.count('concurrent_rejected_with_commits')
    net = sorted('%s[%s]: %r -> %r' % (sk[0], sk[1], first[sk], last[sk])
                 for sk in first if first[sk] != last[sk])
    reason = reject_reason(step)
    res.seen('conc-reject', step.rname(), reason, len(own))
    if net:
        kinds = sorted({c.split('[')[0] for c in net})
        changed = [sk for sk in first if first[sk] != last[sk]]
        held = {c for (c, _, _) in final.allocs}
        if all(sk[0] == 'consumers' and first[sk] is None and sk[1] in held
               for sk in changed):
            # (D22) the consumer record this request auto-created was taken
            # over by another writer before this request failed: it cannot
            # be removed any more
            kinds = ['auto-created-consumer-adopted-by-other-writer']
        res.violation(
            '%s|rejected-write-left-trace|%s|%s|%s' % (
                pid, step.rname(), reason, ','.join(kinds)),
            '%s rejected (%d, %s) under concurrency but its own commits '
            'changed: %s' % (step.rname(), resp.status, reason, net[:8]),
            dict(wit, net_effect=net[:20]))


def c04(step, res):
    before, after = step.before, step.after
    rn = step.rname()
    st = step.resp.status
    if step.req['method'] in READ_METHODS:
        return
    if st >= 400:
        res.count('rejected_writes_judged')
        reason = reject_reason(step)
        tag = step.req['tag']
        pos = tag.get('bad_pos', '-')
        mix = tag.get('mix', '-')
        res.seen(rn, reason, pos, mix)
        ch = dbdump.diff(before, after)
        if ch:
            kinds = sorted({c.split('[')[0].split(':')[0] for c in ch})
            res.count('residue_seen')
            res.violation(
                'C04|rejected-write-left-trace|%s|%s|%s' % (
                    rn, reason, ','.join(kinds)),
                '%s rejected (%d, %s) but state changed: %s' % (
                    rn, st, reason, ch[:8]), step.witness(diff=ch[:20]))
        return
    if not step.ok:
        return
    # accepted multi-entity writes: complete effect w.r.t. the body
    body = step.req['body']
    miss = []
    if is_alloc_write(step.req):
        pl = placed(step.req)
        if pl is not None:
            res.count('accepted_multi_judged')
            for c, m in pl.items():
                have = {(rp, rc): used for (cc, rp, rc), used
                        in after.allocs.items() if cc == c}
                want = {k: a for k, a in m.items() if a > 0}
                if have != want:
                    miss.append('consumer %s has %r, body says %r'
                                % (c, have, want))
                # ... and the consumer is recorded with the project, user
                # and type the accepted request names for it
                e = body if step.route == 'alloc' else (
                    (body.get('allocations') or {}).get(c)
                    if step.route == 'reshaper' else body.get(c)) \
                    if isinstance(body, dict) else None
                cur = after.consumers.get(c)
                if want and cur and isinstance(e, dict):
                    for key, col in (('project_id', 'project'),
                                     ('user_id', 'user'),
                                     ('consumer_type', 'type')):
                        if key in e and cur[col] != e[key]:
                            miss.append('consumer %s has %s %r, body says '
                                        '%r' % (c, col, cur[col], e[key]))
    if step.route == 'reshaper' and isinstance(body, dict):
        for rp, x in (body.get('inventories') or {}).items():
            want = {rc: _norm_inv(f)
                    for rc, f in x.get('inventories', {}).items()}
            have = {rc: dict(f) for (p, rc), f in after.inventories.items()
                    if p == rp}
            if have != want:
                miss.append('provider %s inventories %r, body says %r'
                            % (rp, have, want))
    if step.route == 'invs' and step.req['method'] == 'PUT' and \
            isinstance(body, dict):
        res.count('accepted_multi_judged')
        rp = step.params['uuid']
        want = {rc: _norm_inv(f)
                for rc, f in (body.get('inventories') or {}).items()}
        have = {rc: dict(f) for (p, rc), f in after.inventories.items()
                if p == rp}
        if have != want:
            miss.append('provider %s inventories %r, body says %r'
                        % (rp, have, want))
    if step.route == 'rp_traits' and step.req['method'] == 'PUT' and \
            isinstance(body, dict):
        res.count('accepted_multi_judged')
        rp = step.params['uuid']
        want = set(body.get('traits') or [])
        have = {t for (p, t) in after.rp_traits if p == rp}
        if have != want:
            miss.append('provider %s traits %r, body says %r' % (
                rp, sorted(have), sorted(want)))
    if step.route == 'rp_aggs' and step.req['method'] == 'PUT':
        res.count('accepted_multi_judged')
        rp = step.params['uuid']
        want = set(body.get('aggregates') or []) if isinstance(body, dict) \
            else set(body or [])
        have = {a for (p, a) in after.rp_aggs if p == rp}
        if have != want:
            miss.append('provider %s aggregates %r, body says %r' % (
                rp, sorted(have), sorted(want)))
    if miss:
        res.violation('C04|accepted-write-partial-effect|%s' % rn,
                      '%s accepted (%d) but: %s' % (rn, st, miss[:4]),
                      step.witness())


# ---------------------------------------------------------------------------
# C12
# ---------------------------------------------------------------------------
class C12Monitor(object):
    """Shadow of (project, user, type) per consumer = attributes of the last
    successful writer, following the statement of C12."""

    def __init__(self, placeholder_project, placeholder_user):
        self.pp = placeholder_project
        self.pu = placeholder_user
        self.expect = {}    # consumer -> {'project': set, 'user': set,
        #                                  'type': set}

    def band(self, v):
        return ('<1.8' if v < 8 else '1.8-1.27' if v < 28 else
                '1.28-1.37' if v < 38 else '>=1.38')

    def step(self, step, res):
        before, after = step.before, step.after
        rn = step.rname()
        res.count('requests_judged')
        with_allocs = {c for (c, _, _) in after.allocs}
        rows = set(after.consumers)
        v = vnum(step.req['version'])
        held_before = {x for (x, _, _) in before.allocs}
        for c in rows - with_allocs:
            if c in before.consumers and c not in held_before:
                # already stray before this request: reported where it arose
                res.count('steps_with_preexisting_stray_consumer')
                continue
            kind = 'rejected' if step.resp.status >= 400 else 'accepted'
            reason = reject_reason(step) if step.resp.status >= 400 else \
                ('empty-allocations' if c not in
                 {x for (x, _, _) in before.allocs} else 'emptied')
            res.violation(
                'C12|consumer-without-allocations|%s|%s|%s' % (rn, kind,
                                                               reason),
                'after %s (%d) consumer %s exists without allocations' % (
                    rn, step.resp.status, c), step.witness())
        for c in with_allocs - rows:
            res.violation('C12|allocations-without-consumer|%s' % rn,
                          'after %s consumer %s has allocations but no '
                          'record' % (rn, c), step.witness())
        # attribute shadow
        if step.ok and is_alloc_write(step.req):
            body = step.req['body']
            src = None
            if step.route == 'alloc':
                src = {step.params['consumer']: body}
            elif step.route == 'allocs':
                src = body
            elif step.route == 'reshaper':
                src = body.get('allocations', {})
            for c, e in (src or {}).items():
                existed = c in before.consumers
                new_allocs = bool((placed(step.req) or {}).get(c))
                if not new_allocs:
                    trans = 'empty' if existed else 'empty-new'
                    self.expect.pop(c, None)
                else:
                    trans = 'update' if existed else 'create'
                    old = self.expect.get(c)
                    if 'project_id' in e:
                        pj, us = {e['project_id']}, {e['user_id']}
                    elif existed and old:
                        # a write below 1.8 names nothing: keeping the old
                        # values or the placeholders are both admissible
                        pj = old['project'] | {self.pp}
                        us = old['user'] | {self.pu}
                    else:
                        pj, us = {self.pp}, {self.pu}
                    if 'consumer_type' in e:
                        ty = {e['consumer_type']}
                    elif existed and old:
                        ty = old['type']
                    else:
                        ty = {None}
                    self.expect[c] = {'project': pj, 'user': us, 'type': ty}
                res.seen(rn, self.band(v), trans)
        elif step.ok and step.route == 'alloc' and \
                step.req['method'] == 'DELETE':
            self.expect.pop(step.params['consumer'], None)
            res.seen(rn, self.band(v), 'delete')
        elif step.resp.status >= 400 and is_alloc_write(step.req):
            pl = placed(step.req) or {}
            if any(c not in before.consumers for c in pl):
                res.seen(rn, self.band(v), 'rejected-first')
                res.count('rejected_first_writes')
        for c, exp in self.expect.items():
            cur = after.consumers.get(c)
            if cur is None:
                continue
            res.count('attribute_checks')
            bad = [k for k in ('project', 'user', 'type')
                   if cur[k] not in exp[k]]
            if bad:
                res.violation(
                    'C12|consumer-attributes-differ|%s|%s' % (
                        rn, ','.join(bad)),
                    'consumer %s has %r, last successful writer gave %r' % (
                        c, {k: cur[k] for k in bad},
                        {k: sorted(map(str, exp[k])) for k in bad}),
                    step.witness())
