"""C16 - authenticated and authorised before any effect (exhaustive)."""
import json
import os
import time

from pv import dbdump, world
from pv.client import Req

META = {
    'level': 'exploration',
    'exhaustive': True,
    'evaluations': 'requests',
    'rule': 'exhaustive: every (route, method) of the routing table of the '
            'working tree (plus undefined methods) x 9 caller classes under '
            'default policy at 1.39, the same operations in the request '
            'formats of 21 older microversions x 5 caller classes and aimed '
            'at other entities (unknown ones, a consumer holding nothing, '
            'a bare provider) for the callers to be denied, then for '
            'every documented rule R: R:="@" with a '
            'role-less caller and R:="!" with admin, each against all '
            'operations; every probe runs on a restored snapshot, the dump '
            'and the SQL statement stream around it are compared; distinct = '
            '(operation, caller class, policy variant)',
    'floors': {'denied_probes': 100, 'allowed_probes': 50,
               'older_version_probes': 500, 'other_target_probes': 50,
               'keystone_pipeline_probes': 100,
               'override_probes': 500, 'unauthenticated_probes': 30},
    'assumptions': ['authorisation decided on the noauth2 + '
                    'PlacementKeystoneContext pipeline (the code placement '
                    'owns); the real keystonemiddleware auth_token pipeline '
                    'is exercised with an unreachable identity service for '
                    'the no-credentials / unvalidated-token probes only '
                    '(token validation cannot run offline)',
                    'SQLite backend'],
    'shard_timeout': 1800,
}

# caller classes: (name, token, roles header, extra headers)
OWN = world.PROJECT
CALLERS = [
    ('none', None, None, {}),
    ('no-roles', 'u1:%s' % OWN, None, {}),
    ('reader-own', 'u1:%s' % OWN, 'reader', {}),
    ('reader-other', 'u1:proj-foreign', 'reader', {}),
    ('member-own', 'u1:%s' % OWN, 'member,reader', {}),
    ('admin', 'admin', None, {}),
    ('admin-flat', 'u2:%s' % OWN, 'admin,member,reader', {}),
    ('service', 'svc:svcproj', 'service', {}),
    ('system-admin', 'u3:%s' % OWN, 'admin',
     {'OpenStack-System-Scope': 'all'}),
    # the same identity first with, then without the role (role revoked,
    # restricted token): a decision must never outlive the roles it was
    # based on.  Order matters: each pair runs back to back.
    ('admin-then', 'u9:%s' % OWN, 'admin', {}),
    ('revoked-admin', 'u9:%s' % OWN, 'member,reader', {}),
    ('service-then', 'u8:svcproj', 'service', {}),
    ('revoked-service', 'u8:svcproj', None, {}),
]
METHODS = ['GET', 'PUT', 'POST', 'DELETE', 'PATCH', 'HEAD']
# every microversion at which some request format or handler changes
OLD_VERSIONS = [0, 1, 2, 4, 6, 7, 8, 11, 12, 13, 14, 18, 19, 27, 28, 29, 30,
                33, 36, 37, 38]
VERSION_CALLERS = [c for c in CALLERS if c[0] in (
    'no-roles', 'reader-own', 'member-own', 'admin', 'service')]


def expected_default(op, caller):
    """Allow/deny per the statement of C16 (not read from the code)."""
    name = caller[0]
    roles = set((caller[2] or ('admin' if caller[1] == 'admin' else ''))
                .split(',')) - {''}
    if name == 'none':
        return '401'
    if name == 'system-admin':
        return 'deny'       # system scope is not accepted by project-scoped
    #                         rules (enforce_scope)
    if op == ('POST', '/reshaper'):
        return 'allow' if 'service' in roles else 'deny'
    if 'admin' in roles or 'service' in roles:
        return 'allow'
    if op == ('GET', '/usages') and 'reader' in roles and (
            name.endswith('-own') or name == 'revoked-admin'):
        return 'allow'
    return 'deny'


KEYSTONE_CONF = '''[keystone_authtoken]
www_authenticate_uri = http://127.0.0.1:1/identity
auth_url = http://127.0.0.1:1/identity
auth_type = password
username = placement
password = x
project_name = service
user_domain_id = default
project_domain_id = default
'''


def plan(tier, seed, scale):
    shards = [{'part': 'default', 'seed': seed, 'hashseed': 0},
              {'part': 'keystone', 'seed': seed, 'hashseed': 0}]
    for i in range(6):
        shards.append({'part': 'override', 'slice': i, 'of': 6,
                       'seed': seed, 'hashseed': 0})
    return shards


def _with_caller(req, caller):
    r = Req(req['method'], req['path'], req['version'], req['body'],
            token=caller[1], roles=caller[2], headers=dict(caller[3]))
    if req['roles'] == 'service' and caller[0] == 'admin' and False:
        pass
    return r


def _judge_denied(res, sig_tail, what, resp, before, after, stmts, wit):
    from pv.sqlwatch import is_write
    if 200 <= resp.status < 300:
        res.violation('C16|denied-caller-got-success|%s' % sig_tail,
                      '%s: answered %d' % (what, resp.status), wit)
        return
    if resp.status not in (403, 404, 405, 406, 415):
        res.violation('C16|denied-caller-unexpected-status|%s|%d' % (
            sig_tail, resp.status), '%s: answered %d' % (what, resp.status),
            wit)
    j = resp.json
    if resp.status == 403:
        if not (isinstance(j, dict) and list(j) == ['errors']):
            res.violation('C16|403-body-not-error-document|%s' % sig_tail,
                          '%s: body %r' % (what, resp.body[:200]), wit)
    ch = dbdump.diff(before, after, with_aux=True)
    if ch:
        res.violation('C16|denied-request-changed-state|%s' % sig_tail,
                      '%s: %s' % (what, ch[:5]), wit)
    wr = [s['sql'][:80] for s in stmts if s['kind'] == 'stmt' and
          is_write(s['sql'])]
    if wr:
        res.violation('C16|write-statement-before-denial|%s' % sig_tail,
                      '%s: %s' % (what, wr[:3]), wit)


def run_shard(spec, res):
    from pv import use_repo
    use_repo()
    from pv.histrun import Service
    from pv.sqlwatch import SqlWatch
    from placement import handler as phandler
    from placement import policies as ppolicies
    from placement import policy as ppolicy

    if spec['part'] == 'keystone':
        return keystone_shard(spec, res)
    svc = Service()
    watch = SqlWatch(svc.app.engine)
    try:
        svc.fresh()
        world.build(svc.client)
        base = svc.app.snapshot(svc.app.db_path + '.world')
        d0 = svc.dump()
        ops = world.operations(d0)

        table = {}
        for route, targets in phandler.ROUTE_DECLARATIONS.items():
            if route in ('', '/'):
                continue
            for m in targets:
                table[(m, route)] = True
        documented = {}
        for r in ppolicies.list_rules():
            for o in getattr(r, 'operations', None) or []:
                documented.setdefault((o['method'], o['path']), []).append(
                    r.name)
        for op in sorted(table):
            if op not in documented:
                res.violation('C16|operation-without-documented-rule|%s %s'
                              % op, 'route %s %s has no documented policy '
                              'rule' % op, {})
            if op not in ops:
                res.count('operations_without_probe')
                res.violation('C16|no-probe-for-operation|%s %s' % op,
                              'the harness has no request for %s %s (routing '
                              'table changed?)' % op, {})
        for op in sorted(documented):
            if op not in table:
                res.violation('C16|documented-operation-not-routed|%s %s'
                              % op, 'documented operation %s %s is not in '
                              'the routing table' % op, {})
        oplist = sorted(op for op in table if op in ops)

        def probe(req, caller):
            svc.app.restore(base)
            r = _with_caller(req, caller)
            watch.start()
            resp = svc.client.send(r)
            stmts = watch.stop()
            after = svc.dump()
            return r, resp, after, stmts

        def set_policy(rules):
            path = os.path.join(svc.app.own_dir, 'policy.yaml')
            with open(path, 'w') as f:
                json.dump(rules, f)
            svc.app.conf.set_override('policy_file', path,
                                      group='oslo_policy')
            ppolicy.reset()
            ppolicy.init(svc.app.conf)

        edits = [0]

        def edit_policy(rules):
            # as an operator would: rewrite the file in place, nothing else
            path = os.path.join(svc.app.own_dir, 'policy.yaml')
            with open(path, 'w') as f:
                json.dump(rules, f)
            edits[0] += 1
            t = time.time() + 5 * edits[0]
            os.utime(path, (t, t))

        if spec['part'] == 'default':
            for op in oplist:
                for caller in CALLERS:
                    want = expected_default(op, caller)
                    r, resp, after, stmts = probe(ops[op], caller)
                    res.count('requests')
                    res.seen('%s %s' % op, caller[0], 'default')
                    wit = {'request': r.brief(), 'response': resp.brief(),
                           'caller': caller[0]}
                    what = '%s %s as %s' % (op[0], op[1], caller[0])
                    tail = '%s %s|%s|default' % (op[0], op[1], caller[0])
                    if want == '401':
                        res.count('unauthenticated_probes')
                        if resp.status != 401:
                            res.violation(
                                'C16|no-credentials-not-401|%s' % tail,
                                '%s: answered %d' % (what, resp.status), wit)
                        elif dbdump.diff(d0, after, with_aux=True):
                            res.violation(
                                'C16|unauthenticated-request-changed-state|'
                                + tail, what, wit)
                    elif want == 'deny':
                        res.count('denied_probes')
                        _judge_denied(res, tail, what, resp, d0, after,
                                      stmts, wit)
                    else:
                        res.count('allowed_probes')
                        if not 200 <= resp.status < 300:
                            res.violation(
                                'C16|authorised-caller-refused|%s|%d' % (
                                    tail, resp.status),
                                '%s: answered %d %s' % (
                                    what, resp.status, resp.brief()), wit)
            # the same operations aimed at other entities (unknown ones, a
            # consumer holding nothing, a bare provider): a caller who is
            # not authorised is refused whatever the request is about
            for op in oplist:
                for tname, req in world.alt_targets(op, ops[op]):
                    for caller in VERSION_CALLERS:
                        if expected_default(op, caller) != 'deny':
                            continue
                        r, resp, after, stmts = probe(req, caller)
                        res.count('requests')
                        res.count('denied_probes')
                        res.count('other_target_probes')
                        res.seen('%s %s' % op, caller[0], tname)
                        wit = {'request': r.brief(),
                               'response': resp.brief(),
                               'caller': caller[0]}
                        _judge_denied(
                            res, '%s %s|%s|%s' % (op[0], op[1], caller[0],
                                                  tname),
                            '%s %s (%s) as %s' % (op[0], op[1], tname,
                                                  caller[0]),
                            resp, d0, after, stmts, wit)
            # a repeated query parameter: the project the policy is judged
            # for and the project whose usages are returned are one and the
            # same (whichever of the two values the service takes)
            for order in (('own', OWN, 'proj-other'),
                          ('foreign', 'proj-other', OWN)):
                for caller in CALLERS:
                    if caller[0] not in ('reader-own', 'member-own'):
                        continue
                    req = Req('GET', '/usages?project_id=%s&project_id=%s'
                              % (order[1], order[2]), '1.39')
                    r, resp, after, stmts = probe(req, caller)
                    res.count('requests')
                    res.count('repeated_parameter_probes')
                    res.seen('GET /usages', caller[0],
                             'repeated-project_id-%s-first' % order[0])
                    wit = {'request': r.brief(), 'response': resp.brief(),
                           'caller': caller[0]}
                    mine, other = OWN, 'proj-other'
                    if 200 <= resp.status < 300:
                        # answered: then for the caller's own project, i.e.
                        # what a single project_id=<own> returns
                        ref = probe(Req('GET', '/usages?project_id=%s'
                                        % mine, '1.39'), caller)[1]
                        oth = probe(Req('GET', '/usages?project_id=%s'
                                        % other, '1.39'), CALLERS[5])[1]
                        if resp.json != ref.json or (
                                resp.json == oth.json and
                                ref.json != oth.json):
                            res.violation(
                                'C16|foreign-data-through-repeated-'
                                'parameter|GET /usages|%s' % caller[0],
                                'GET /usages with project_id=%s&project_id='
                                '%s as %s answered %d with %r' % (
                                    order[1], order[2], caller[0],
                                    resp.status, resp.json), wit)
                    elif resp.status not in (400, 403):
                        res.violation(
                            'C16|denied-caller-unexpected-status|GET /usages'
                            '|%s|repeated|%d' % (caller[0], resp.status),
                            'answered %d' % resp.status, wit)
            # the same operations in the request formats of older
            # microversions (handlers are implemented per version band:
            # every band must authorise on its own)
            for op in oplist:
                for n in OLD_VERSIONS:
                    req = world.at_version(op, ops[op], n)
                    if req is None:
                        continue
                    for caller in VERSION_CALLERS:
                        want = expected_default(op, caller)
                        r, resp, after, stmts = probe(req, caller)
                        res.count('requests')
                        res.count('older_version_probes')
                        res.seen('%s %s' % op, caller[0], 'v1.%d' % n)
                        wit = {'request': r.brief(),
                               'response': resp.brief(),
                               'caller': caller[0]}
                        what = '%s %s at 1.%d as %s' % (op[0], op[1], n,
                                                        caller[0])
                        tail = '%s %s|%s|1.%d' % (op[0], op[1], caller[0], n)
                        if want == 'deny':
                            res.count('denied_probes')
                            _judge_denied(res, tail, what, resp, d0, after,
                                          stmts, wit)
                        elif not 200 <= resp.status < 300:
                            res.violation(
                                'C16|authorised-caller-refused|%s|%d' % (
                                    tail, resp.status),
                                '%s: answered %d %s' % (
                                    what, resp.status, resp.brief()), wit)
                        else:
                            res.count('allowed_probes')
            # undefined methods / HEAD, and the version document
            for route in sorted(phandler.ROUTE_DECLARATIONS):
                if route in ('', '/'):
                    continue
                path = world.concrete_path(route)
                for m in METHODS:
                    if (m, route) in table:
                        continue
                    for caller in (CALLERS[0], CALLERS[1], CALLERS[5]):
                        req = Req(m, path, '1.39',
                                  {} if m in ('PUT', 'POST', 'PATCH')
                                  else None)
                        r, resp, after, stmts = probe(req, caller)
                        res.count('requests')
                        res.count('undefined_method_probes')
                        res.seen('%s %s' % (m, route), caller[0], 'undef')
                        wit = {'request': r.brief(),
                               'response': resp.brief()}
                        want = (401,) if caller[0] == 'none' else (405,)
                        if m == 'HEAD' and ('GET', route) in table and \
                                caller[0] != 'none':
                            # Routes may or may not map HEAD; never a
                            # success for a role-less caller
                            want = (405, 403, 200) if caller[0] == 'admin' \
                                else (405, 403)
                        if resp.status not in want:
                            res.violation(
                                'C16|undefined-method-status|%s %s|%s|%d' % (
                                    m, route, caller[0], resp.status),
                                '%s %s as %s answered %d, expected %s' % (
                                    m, path, caller[0], resp.status, want),
                                wit)
                        if dbdump.diff(d0, after, with_aux=True):
                            res.violation(
                                'C16|undefined-method-changed-state|%s %s'
                                % (m, route), '%s %s' % (m, path), wit)
            for path in ('/', ''):
                r, resp, after, stmts = probe(Req('GET', path or '/', '1.39'),
                                              CALLERS[0])
                res.count('requests')
                if resp.status != 200:
                    res.violation('C16|version-document-needs-credentials',
                                  'GET / without token: %d' % resp.status,
                                  {})
            res.sample({'operation': 'POST /reshaper', 'callers': {
                c[0]: expected_default(('POST', '/reshaper'), c)
                for c in CALLERS}})
        else:
            rules = sorted({n for ns in documented.values() for n in ns})
            mine = [r for i, r in enumerate(rules)
                    if i % spec['of'] == spec['slice']]
            roleless, admin = CALLERS[1], CALLERS[5]
            svc_caller = CALLERS[7]
            for rule in mine:
                covered = {op for op, ns in documented.items() if rule in ns}
                for variant, check, caller in (('open', '@', roleless),
                                               ('closed', '!', admin)):
                    set_policy({rule: check})
                    for op in oplist:
                        c = caller
                        if variant == 'closed' and \
                                op == ('POST', '/reshaper'):
                            c = svc_caller   # the only default-allowed one
                        r, resp, after, stmts = probe(ops[op], c)
                        res.count('requests')
                        res.count('override_probes')
                        res.seen('%s %s' % op, c[0], '%s=%s' % (rule, check))
                        ok2 = 200 <= resp.status < 300
                        should_allow = (op in covered) == (variant == 'open')
                        wit = {'request': r.brief(),
                               'response': resp.brief(),
                               'policy': {rule: check}, 'caller': c[0]}
                        tail = '%s %s|%s' % (op[0], op[1], variant)
                        if should_allow and not ok2:
                            res.violation(
                                'C16|override-did-not-grant|%s' % tail
                                if variant == 'open' else
                                'C16|override-denied-other-operation|%s'
                                % tail,
                                'policy {%s: %r}: %s %s as %s answered %d'
                                % (rule, check, op[0], op[1], c[0],
                                   resp.status), wit)
                        if not should_allow and variant == 'closed':
                            for tname, req2 in world.alt_targets(op,
                                                                 ops[op]):
                                r2, resp2, after2, stmts2 = probe(req2, c)
                                res.count('requests')
                                res.count('override_probes')
                                res.seen('%s %s' % op, c[0],
                                         '%s=%s' % (rule, check), tname)
                                _judge_denied(
                                    res, tail + '|' + c[0] + '|' + tname,
                                    '%s %s (%s) as %s under {%s: %r}' % (
                                        op[0], op[1], tname, c[0], rule,
                                        check), resp2, d0, after2, stmts2,
                                    {'request': r2.brief(),
                                     'response': resp2.brief(),
                                     'policy': {rule: check}})
                        if not should_allow:
                            if ok2:
                                res.violation(
                                    'C16|override-did-not-deny|%s' % tail
                                    if variant == 'closed' else
                                    'C16|override-granted-other-operation|'
                                    '%s' % tail,
                                    'policy {%s: %r}: %s %s as %s answered '
                                    '%d' % (rule, check, op[0], op[1], c[0],
                                            resp.status), wit)
                            else:
                                _judge_denied(
                                    res, tail + '|' + c[0],
                                    '%s %s as %s under {%s: %r}' % (
                                        op[0], op[1], c[0], rule, check),
                                    resp, d0, after, stmts, wit)
                # the same override REMOVED from the policy file of the
                # running service (no restart: the file's mtime changes and
                # the enforcer re-reads it): the documented default is back
                tested = sorted(op for op in covered if op in ops)
                if not tested:
                    continue
                op = tested[0]
                for variant, check, caller in (('open', '@', roleless),
                                               ('closed', '!', admin)):
                    c = svc_caller if (variant == 'closed' and op == (
                        'POST', '/reshaper')) else caller
                    set_policy({rule: check})
                    probe(ops[op], c)
                    other = [r_ for r_ in rules if r_ != rule]
                    edit_policy({other[0]: check} if other and
                                variant == 'open' else {})
                    r, resp, after, stmts = probe(ops[op], c)
                    res.count('requests')
                    res.count('live_edit_probes')
                    res.seen('%s %s' % op, c[0], 'removed %s=%s' % (rule,
                                                                   check))
                    wit = {'request': r.brief(), 'response': resp.brief(),
                           'policy_before': {rule: check},
                           'policy_now': 'override removed (file edited, '
                                         'no restart)', 'caller': c[0]}
                    tail = '%s %s|removed-%s' % (op[0], op[1], variant)
                    if variant == 'open':
                        _judge_denied(
                            res, tail + '|' + c[0],
                            '%s %s as %s after {%s: %r} was removed' % (
                                op[0], op[1], c[0], rule, check),
                            resp, d0, after, stmts, wit)
                    elif not 200 <= resp.status < 300:
                        res.violation(
                            'C16|removed-override-still-denies|%s' % tail,
                            '%s %s as %s answered %d after {%s: %r} was '
                            'removed' % (op[0], op[1], c[0], resp.status,
                                         rule, check), wit)
            set_policy({})
            res.sample({'rule': mine[0] if mine else None,
                        'variants': ['@ with role-less caller',
                                     '! with admin']})
    finally:
        svc.close()


def keystone_shard(spec, res):
    """The real keystone auth_token pipeline (auth_strategy=keystone) with an
    unreachable identity service: without credentials every route but / must
    answer 401 before anything else happens; with a token that cannot be
    validated nothing may succeed."""
    from pv import use_repo
    use_repo()
    from pv.histrun import Service
    from placement import handler as phandler
    svc = Service(auth_strategy='keystone', config_text=KEYSTONE_CONF)
    try:
        d0 = svc.dump()
        for route, targets in sorted(phandler.ROUTE_DECLARATIONS.items()):
            if route == '':
                continue
            path = world.concrete_path(route) if route != '/' else '/'
            for m in METHODS:
                for token in (None, 'not-a-valid-token'):
                    req = Req(m, path, '1.39',
                              {} if m in ('PUT', 'POST', 'PATCH') else None,
                              token=token)
                    resp = svc.client.send(req)
                    res.count('requests')
                    res.count('keystone_pipeline_probes')
                    res.seen('%s %s' % (m, route), 'keystone',
                             'no-token' if token is None else 'bad-token')
                    wit = {'request': req.brief(), 'response': resp.brief()}
                    if route == '/':
                        if m == 'GET' and resp.status != 200:
                            res.violation(
                                'C16|version-document-needs-credentials|'
                                'keystone', 'GET /: %d' % resp.status, wit)
                        continue
                    if token is None:
                        res.count('unauthenticated_probes')
                        if resp.status != 401:
                            res.violation(
                                'C16|no-credentials-not-401|%s %s|keystone'
                                % (m, route),
                                '%s %s without credentials under the '
                                'keystone pipeline: %d' % (m, path,
                                                           resp.status), wit)
                    elif 200 <= resp.status < 300:
                        res.violation(
                            'C16|unvalidated-token-got-success|%s %s' % (
                                m, route),
                            '%s %s with a token that cannot be validated: '
                            '%d' % (m, path, resp.status), wit)
        after = svc.dump()
        if dbdump.diff(d0, after, with_aux=True):
            res.violation('C16|unauthenticated-request-changed-state|'
                          'keystone', 'state changed', {})
        res.sample({'pipeline': 'keystonemiddleware auth_token, identity '
                    'service unreachable', 'expect': '401 without a token, '
                    'never 2xx with an unvalidated one'})
    finally:
        svc.close()
