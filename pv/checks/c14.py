"""C14 - each microversion exposes exactly its documented surface
(exhaustive enumeration, DESIGN.md Appendix B)."""
from pv import world
from pv.client import Req
from pv.world import R, C, S, E, K1, K3, A1, A2, PROJECT, USER

META = {
    'level': 'exploration',
    'exhaustive': True,
    'evaluations': 'probes',
    'rule': 'exhaustive: 42 version settings (1.0..1.39, latest, no header) '
            'x every route of the working tree\'s routing table x 6 methods '
            'against existing entities (availability table written from '
            'rest_api_version_history.rst), 406 for out-of-range versions, '
            'version/vary headers on every accepted response, and ~60 '
            'feature probes (request, presence predicate, absence '
            'predicate, introduced-at N) each evaluated at all 42 settings; '
            'distinct = (feature or route/method, version) pairs',
    'floors': {'availability_probes': 3000, 'feature_probes': 1500,
               'header_checks': 3000},
    'assumptions': ['SQLite backend', 'noauth2 admin/service caller'],
    'shard_timeout': 1800,
}

MAX_MINOR = 39
SIB = '88888888-8888-4888-8888-888888888888'   # second child of R
BARE = '88888888-8888-4888-8888-88888888888b'  # no inventory, traits, ...
KOLD = 'aaaaaaaa-aaaa-4aaa-8aaa-aaaaaaaaaa0d'  # consumer written at 1.37
SETTINGS = ['1.%d' % i for i in range(MAX_MINOR + 1)] + ['latest', None]
BAD_VERSIONS = ['0.9', '1.40', '2.0', '1.100', '0.0']
GARBAGE = ['x.y', '1', 'one.zero', '1.2.3']
METHODS = ['GET', 'PUT', 'POST', 'DELETE', 'PATCH', 'HEAD']

# (method, route) -> (introduced at minor, status below)
INTRO = {}
for _m in ('GET', 'PUT'):
    INTRO[(_m, '/resource_providers/{uuid}/aggregates')] = (1, 404)
for _m, _r in (('GET', '/resource_classes'), ('POST', '/resource_classes'),
               ('GET', '/resource_classes/{name}'),
               ('PUT', '/resource_classes/{name}'),
               ('DELETE', '/resource_classes/{name}')):
    INTRO[(_m, _r)] = (2, 404)
INTRO[('DELETE', '/resource_providers/{uuid}/inventories')] = (5, 405)
for _m, _r in (('GET', '/traits'), ('GET', '/traits/{name}'),
               ('PUT', '/traits/{name}'), ('DELETE', '/traits/{name}'),
               ('GET', '/resource_providers/{uuid}/traits'),
               ('PUT', '/resource_providers/{uuid}/traits'),
               ('DELETE', '/resource_providers/{uuid}/traits')):
    INTRO[(_m, _r)] = (6, 404)
INTRO[('GET', '/usages')] = (9, 404)
INTRO[('GET', '/allocation_candidates')] = (10, 404)
INTRO[('POST', '/allocations')] = (13, 404)
INTRO[('POST', '/reshaper')] = (30, 404)


def minor(setting):
    if setting is None:
        return 0
    if setting == 'latest':
        return MAX_MINOR
    return int(setting.split('.')[1])


def applied(setting):
    return '1.%d' % minor(setting)


def plan(tier, seed, scale):
    shards = []
    for i in range(14):
        shards.append({'part': 'avail', 'slice': i, 'of': 14, 'seed': seed,
                       'hashseed': 0})
    for i in range(6):
        shards.append({'part': 'features', 'slice': i, 'of': 6,
                       'seed': seed, 'hashseed': 0})
    if tier == 'thorough':
        for st in (1, 2):
            for i in range(6):
                shards.append({'part': 'features', 'slice': i, 'of': 6,
                               'seed': seed, 'hashseed': st, 'state': st})
    return shards


# -- feature probes ----------------------------------------------------------
def alloc_body(v, consumer_new=True, fmt=None, project=True, cgen=True,
               ctype=True, mappings=False, empty=False):
    """PUT /allocations body adapted to version v except where a feature
    under test overrides the adaptation."""
    fmt = fmt or ('dict' if v >= 12 else 'list')
    if fmt == 'dict':
        allocs = {} if empty else {R: {'resources': {'VCPU': 1}}}
    else:
        allocs = [] if empty else [{'resource_provider': {'uuid': R},
                                    'resources': {'VCPU': 1}}]
    b = {'allocations': allocs}
    if project is True:
        project = v >= 8
    if project:
        b['project_id'], b['user_id'] = PROJECT, USER
    if cgen is True:
        cgen = v >= 28
    if cgen:
        b['consumer_generation'] = None
    if ctype is True:
        ctype = v >= 38
    if ctype:
        b['consumer_type'] = 'INSTANCE'
    if mappings:
        b['mappings'] = {'': [R]}
    return b


def st_in(*codes):
    return lambda r: r.status in codes


def jhas(path_fn):
    def f(r):
        try:
            return bool(path_fn(r.json))
        except Exception:
            return False
    return f


def neg(p):
    return lambda r: not p(r)


def both(*ps):
    return lambda r: all(p(r) for p in ps)


def links_have(rel):
    return jhas(lambda j: any(x['rel'] == rel for x in j['links']))


def summaries(fn):
    return jhas(lambda j: fn(j['provider_summaries']))


def features(d=None):
    """list of (name, N, req_builder(minor, setting), present, absent,
    applicable_from) - present must hold at >= N, absent below N (only
    evaluated from applicable_from on; below that the route itself is missing
    and availability is judged by part (a))."""
    F = []
    gE = d.providers[E]['generation'] if d is not None else 1
    gR = d.providers[R]['generation'] if d is not None else 1
    cgK1 = d.consumers[K1]['generation'] if d is not None else 1
    others = (set(d.providers) - {R}) if d is not None else {C, S, E}

    def add(name, n, build, present, absent, frm=0):
        F.append((name, n, build, present, absent, frm))

    put_k3 = lambda v, s, **kw: Req('PUT', '/allocations/%s' % K3, s,
                                    alloc_body(v, **kw))
    # 1.8 project/user required in PUT /allocations
    add('1.8 project_id/user_id accepted in PUT allocations', 8,
        lambda v, s: put_k3(v, s, project=True if v >= 8 else 'force'),
        st_in(204), st_in(400))
    add('1.8 project_id/user_id required', 8,
        lambda v, s: put_k3(v, s, project=False),
        st_in(400), st_in(204))
    # 1.12 dict format
    add('1.12 dict allocations accepted', 12,
        lambda v, s: put_k3(v, s, fmt='dict'), st_in(204), st_in(400))
    add('1.12 list allocations rejected', 12,
        lambda v, s: put_k3(v, s, fmt='list'), st_in(400), st_in(204))
    add('1.12 project_id/user_id in GET allocations', 12,
        lambda v, s: Req('GET', '/allocations/%s' % K1, s),
        jhas(lambda j: j['project_id'] == PROJECT and j['user_id'] == USER),
        jhas(lambda j: 'project_id' not in j and 'user_id' not in j))
    add('1.12 dict allocation_requests in candidates', 12,
        lambda v, s: Req('GET', '/allocation_candidates?resources=VCPU:1',
                         s),
        jhas(lambda j: isinstance(
            j['allocation_requests'][0]['allocations'], dict)),
        jhas(lambda j: isinstance(
            j['allocation_requests'][0]['allocations'], list)), 10)
    # 1.14 nested
    add('1.14 parent_provider_uuid accepted on POST', 14,
        lambda v, s: Req('POST', '/resource_providers', s,
                         {'name': 'kid', 'uuid': world.N,
                          'parent_provider_uuid': E}),
        st_in(200, 201), st_in(400))
    add('1.14 parent_provider_uuid accepted on PUT', 14,
        lambda v, s: Req('PUT', '/resource_providers/%s' % E, s,
                         {'name': 'empty', 'parent_provider_uuid': R}),
        st_in(200), st_in(400))
    add('1.14 parent/root in provider body', 14,
        lambda v, s: Req('GET', '/resource_providers/%s' % C, s),
        jhas(lambda j: j['parent_provider_uuid'] == R and
             j['root_provider_uuid'] == R),
        jhas(lambda j: 'parent_provider_uuid' not in j and
             'root_provider_uuid' not in j))
    add('1.14 in_tree on GET resource_providers', 14,
        lambda v, s: Req('GET', '/resource_providers?in_tree=%s' % C, s),
        jhas(lambda j: {x['uuid'] for x in j['resource_providers']}
             == {R, C, SIB}), st_in(400))
    # 1.19 aggregates generation
    add('1.19 aggregates PUT dict body with generation', 19,
        lambda v, s: Req('PUT', '/resource_providers/%s/aggregates' % E, s,
                         {'aggregates': [A2],
                          'resource_provider_generation': gE}),
        both(st_in(200), jhas(lambda j:
                              'resource_provider_generation' in j)),
        st_in(400), 1)
    add('1.19 aggregates PUT list body rejected', 19,
        lambda v, s: Req('PUT', '/resource_providers/%s/aggregates' % E, s,
                         [A2]),
        st_in(400),
        both(st_in(200), jhas(lambda j:
                              'resource_provider_generation' not in j)), 1)
    add('1.19 generation in GET aggregates', 19,
        lambda v, s: Req('GET', '/resource_providers/%s/aggregates' % R, s),
        jhas(lambda j: 'resource_provider_generation' in j and
             j['aggregates'] == [A1]),
        jhas(lambda j: 'resource_provider_generation' not in j and
             j['aggregates'] == [A1]), 1)
    add('1.19 stale generation on PUT aggregates is 409', 19,
        lambda v, s: Req('PUT', '/resource_providers/%s/aggregates' % E, s,
                         {'aggregates': [A2],
                          'resource_provider_generation': 77}),
        st_in(409), st_in(400), 1)
    for stale in (0, -1, gR + 1, gR - 1):
        if stale == gR:
            continue
        add('1.19 stale generation %s on PUT aggregates of a provider that '
            'has moved on is 409' % ('0' if stale == 0 else
                                     'g%+d' % (stale - gR) if stale > 0
                                     else 'negative'), 19,
            lambda v, s, stale=stale: Req(
                'PUT', '/resource_providers/%s/aggregates' % R, s,
                {'aggregates': [A2], 'resource_provider_generation': stale}),
            st_in(409, 400) if stale < 0 else st_in(409), st_in(400), 1)
    # 1.20 POST rp
    add('1.20 POST resource_providers returns 200 + body', 20,
        lambda v, s: Req('POST', '/resource_providers', s,
                         {'name': 'new', 'uuid': world.N}),
        both(st_in(200), jhas(lambda j: j['uuid'] == world.N and
                              'generation' in j)),
        lambda r: r.status == 201 and not r.body)
    # 1.26 reserved == total
    add('1.26 reserved == total accepted', 26,
        lambda v, s: Req('PUT', '/resource_providers/%s/inventories/VCPU'
                         % E, s, {'resource_provider_generation': gE,
                                  'total': 4, 'reserved': 4}),
        st_in(200), st_in(400))
    # (R already holds DISK_GB with reserved == total, written at 1.39)
    r_invs = {rc: dict(f) for (p, rc), f in d.inventories.items()
              if p == R} if d is not None else {}
    add('1.26 reserved == total: all records sent back exactly as stored',
        26,
        lambda v, s: Req('PUT', '/resource_providers/%s/inventories' % R, s,
                         {'resource_provider_generation': gR,
                          'inventories': r_invs}),
        st_in(200), st_in(400))
    add('1.26 reserved == total: one record sent back as stored (single PUT)',
        26,
        lambda v, s: Req('PUT', '/resource_providers/%s/inventories/DISK_GB'
                         % R, s, dict(r_invs.get('DISK_GB', {}),
                                      resource_provider_generation=gR)),
        st_in(200), st_in(400))
    # 1.28 consumer generation
    add('1.28 consumer_generation accepted in PUT allocations', 28,
        lambda v, s: put_k3(v, s, cgen=True if v >= 28 else 'force'),
        st_in(204), st_in(400))
    add('1.28 consumer_generation required', 28,
        lambda v, s: put_k3(v, s, cgen=False), st_in(400), st_in(204))
    add('1.28 consumer_generation in GET allocations', 28,
        lambda v, s: Req('GET', '/allocations/%s' % K1, s),
        jhas(lambda j: isinstance(j['consumer_generation'], int)),
        jhas(lambda j: 'consumer_generation' not in j))
    add('1.28 consumer_generation in provider allocations', 28,
        lambda v, s: Req('GET', '/resource_providers/%s/allocations' % R, s),
        jhas(lambda j: all('consumer_generation' in x
                           for x in j['allocations'].values())),
        jhas(lambda j: j['allocations'] and
             all('consumer_generation' not in x
                 for x in j['allocations'].values())))
    add('1.28 empty allocations accepted by PUT', 28,
        lambda v, s: Req('PUT', '/allocations/%s' % K1, s, dict(
            alloc_body(v, empty=True, fmt='dict' if v >= 12 else 'list'),
            **({'consumer_generation': cgK1} if v >= 28 else {}))),
        st_in(204), st_in(400))
    add('1.28 stale consumer generation is 409', 28,
        lambda v, s: Req('PUT', '/allocations/%s' % K1, s, dict(
            alloc_body(v), **({'consumer_generation': 55}
                              if v >= 28 else {}))),
        st_in(409), st_in(204))
    # 1.34 mappings
    add('1.34 mappings accepted in PUT allocations', 34,
        lambda v, s: put_k3(v, s, mappings=True), st_in(204), st_in(400), 12)
    # fields of the bodies of POST /allocations (from 1.13) and POST /reshaper
    # (from 1.30): each entry is a PUT /allocations body and gains the same
    # members at the same versions
    if d is not None:
        ops = world.operations(d)

        def multi(op, v, s, field, value):
            req = world.at_version(op, ops[op], v)
            req['version'] = s
            body = req['body'] if op[1] == '/allocations' \
                else req['body']['allocations']
            for e in body.values():
                e[field] = value(e) if callable(value) else value
            return req
        for op, frm in ((('POST', '/allocations'), 13),
                        (('POST', '/reshaper'), 30)):
            for field, n, value in (
                    ('mappings', 34,
                     lambda e: {'': sorted(e['allocations'])}),
                    ('consumer_type', 38, 'INSTANCE'),
                    ('consumer_generation', 28,
                     lambda e: e.get('consumer_generation'))):
                if n <= frm:
                    continue
                add('1.%d %s accepted in %s %s' % (n, field, op[0], op[1]),
                    n, lambda v, s, op=op, field=field, value=value:
                    multi(op, v, s, field, value),
                    st_in(204), st_in(400), frm)
    add('1.34 mappings in candidates', 34,
        lambda v, s: Req('GET', '/allocation_candidates?resources=VCPU:1',
                         s),
        jhas(lambda j: all('mappings' in a
                           for a in j['allocation_requests']) and
             j['allocation_requests']),
        jhas(lambda j: all('mappings' not in a
                           for a in j['allocation_requests']) and
             j['allocation_requests']), 10)
    # 1.37 re-parent
    add('1.37 re-parenting accepted', 37,
        lambda v, s: Req('PUT', '/resource_providers/%s' % C, s,
                         {'name': 'child', 'parent_provider_uuid': E}),
        both(st_in(200), jhas(lambda j: j['root_provider_uuid'] == E)),
        st_in(400), 14)
    add('1.37 re-parenting within the same tree accepted', 37,
        lambda v, s: Req('PUT', '/resource_providers/%s' % C, s,
                         {'name': 'child', 'parent_provider_uuid': SIB}),
        both(st_in(200), jhas(lambda j: j['root_provider_uuid'] == R and
                              j['parent_provider_uuid'] == SIB)),
        st_in(400), 14)
    add('1.37 un-parenting accepted', 37,
        lambda v, s: Req('PUT', '/resource_providers/%s' % C, s,
                         {'name': 'child', 'parent_provider_uuid': None}),
        both(st_in(200), jhas(lambda j: j['root_provider_uuid'] == C)),
        st_in(400), 14)
    # 1.38 consumer types
    add('1.38 consumer_type accepted in PUT allocations', 38,
        lambda v, s: put_k3(v, s, ctype=True if v >= 38 else 'force'),
        st_in(204), st_in(400))
    add('1.38 consumer_type required', 38,
        lambda v, s: put_k3(v, s, ctype=False), st_in(400), st_in(204))
    add('1.38 consumer_type in GET allocations', 38,
        lambda v, s: Req('GET', '/allocations/%s' % K1, s),
        jhas(lambda j: j['consumer_type'] == 'INSTANCE'),
        jhas(lambda j: 'consumer_type' not in j))
    add('1.38 consumer_type in GET allocations of a consumer written '
        'before 1.38 ("unknown")', 38,
        lambda v, s: Req('GET', '/allocations/%s' % KOLD, s),
        jhas(lambda j: j['consumer_type'] == 'unknown'),
        jhas(lambda j: 'consumer_type' not in j and j['allocations']))
    add('1.38 usages grouped by consumer type', 38,
        lambda v, s: Req('GET', '/usages?project_id=%s' % PROJECT, s),
        jhas(lambda j: j['usages']['INSTANCE']['consumer_count'] == 1 and
             j['usages']['INSTANCE']['VCPU'] == 2),
        jhas(lambda j: j['usages']['VCPU'] == 2 and
             'INSTANCE' not in j['usages']), 9)
    add('1.38 consumer_type filter on usages', 38,
        lambda v, s: Req('GET', '/usages?project_id=%s&consumer_type=all'
                         % PROJECT, s),
        jhas(lambda j: j['usages']['all']['VCPU'] == 2), st_in(400), 9)
    # query parameters on GET /resource_providers
    add('1.3 member_of on resource_providers', 3,
        lambda v, s: Req('GET', '/resource_providers?member_of=in:%s,%s'
                         % (A2, world.N), s),
        jhas(lambda j: [x['uuid'] for x in j['resource_providers']] == [S]),
        st_in(400))
    add('1.4 resources on resource_providers', 4,
        lambda v, s: Req('GET', '/resource_providers?resources=CUSTOM_A:2',
                         s),
        jhas(lambda j: [x['uuid'] for x in j['resource_providers']] == [C]),
        st_in(400))
    add('1.18 required on resource_providers', 18,
        lambda v, s: Req('GET', '/resource_providers?required=CUSTOM_T1', s),
        jhas(lambda j: [x['uuid'] for x in j['resource_providers']] == [R]),
        st_in(400))
    add('1.22 forbidden traits on resource_providers', 22,
        lambda v, s: Req('GET',
                         '/resource_providers?required=!CUSTOM_T1', s),
        jhas(lambda j: {x['uuid'] for x in j['resource_providers']}
             == others), st_in(400), 18)
    add('1.24 repeated member_of on resource_providers', 24,
        lambda v, s: Req('GET', '/resource_providers?member_of=%s&'
                         'member_of=%s' % (A1, A2), s),
        jhas(lambda j: [x['uuid'] for x in j['resource_providers']] == [S]),
        st_in(400), 3)
    add('1.32 forbidden aggregates on resource_providers', 32,
        lambda v, s: Req('GET', '/resource_providers?member_of=%s&'
                         'member_of=!%s' % (A1, A2) if v >= 24 else
                         '/resource_providers?member_of=!%s' % A2, s),
        jhas(lambda j: R in {x['uuid'] for x in j['resource_providers']}
             and S not in {x['uuid'] for x in j['resource_providers']}),
        st_in(400), 3)
    add('1.39 required=in: on resource_providers', 39,
        lambda v, s: Req('GET', '/resource_providers?required='
                         'in:CUSTOM_T1,MISC_SHARES_VIA_AGGREGATE', s),
        jhas(lambda j: {x['uuid'] for x in j['resource_providers']}
             == {R, S}), st_in(400), 18)
    # query parameters on GET /allocation_candidates
    ac = '/allocation_candidates?resources=VCPU:1'
    n_reqs = lambda j: len(j['allocation_requests'])
    add('1.16 limit on candidates', 16,
        lambda v, s: Req('GET', ac + '&limit=1', s),
        jhas(lambda j: n_reqs(j) == 1), st_in(400), 10)
    add('1.17 required on candidates', 17,
        lambda v, s: Req('GET', ac + '&required=CUSTOM_T1', s),
        jhas(lambda j: n_reqs(j) == 1), st_in(400), 10)
    add('1.17 traits in provider summaries', 17,
        lambda v, s: Req('GET', ac, s),
        summaries(lambda ps: set(ps[R]['traits']) ==
                  {'HW_CPU_X86_AVX', 'CUSTOM_T1'}),
        summaries(lambda ps: 'traits' not in ps[R]), 10)
    add('1.21 member_of on candidates', 21,
        lambda v, s: Req('GET', ac + '&member_of=%s' % A1, s),
        jhas(lambda j: n_reqs(j) == 1), st_in(400), 10)
    add('1.22 forbidden traits on candidates', 22,
        lambda v, s: Req('GET', ac + '&required=!CUSTOM_T1', s),
        jhas(lambda j: n_reqs(j) == 1), st_in(400), 17)
    add('1.25 granular groups on candidates', 25,
        lambda v, s: Req('GET', '/allocation_candidates?resources1=VCPU:1'
                         '&resources2=DISK_GB:1&group_policy=none', s),
        jhas(lambda j: n_reqs(j) >= 1), st_in(400), 10)
    add('1.27 all classes in provider summaries', 27,
        lambda v, s: Req('GET', ac, s),
        summaries(lambda ps: set(ps[R]['resources']) ==
                  {'VCPU', 'MEMORY_MB', 'DISK_GB'}),
        summaries(lambda ps: set(ps[R]['resources']) == {'VCPU'}), 10)
    # (R holds a DISK_GB inventory without capacity: the request's DISK_GB is
    # supplied by the sharing provider, yet DISK_GB is a requested class)
    add('1.27 all classes: a requested class the provider holds but does '
        'not supply', 27,
        lambda v, s: Req('GET', ac + ',DISK_GB:1', s),
        summaries(lambda ps: set(ps[R]['resources']) ==
                  {'VCPU', 'MEMORY_MB', 'DISK_GB'}),
        summaries(lambda ps: set(ps[R]['resources']) ==
                  {'VCPU', 'DISK_GB'}), 10)
    add('1.29 nested candidates', 29,
        lambda v, s: Req('GET', '/allocation_candidates?resources='
                         'VCPU:1,CUSTOM_A:1', s),
        jhas(lambda j: n_reqs(j) == 1), jhas(lambda j: n_reqs(j) == 0), 10)
    add('1.29 nested candidates: two children, root supplies nothing', 29,
        lambda v, s: Req('GET', '/allocation_candidates?resources='
                         'CUSTOM_A:1,SRIOV_NET_VF:1', s),
        jhas(lambda j: n_reqs(j) == 1), jhas(lambda j: n_reqs(j) == 0), 10)
    add('1.29 parent/root in provider summaries', 29,
        lambda v, s: Req('GET', ac, s),
        summaries(lambda ps: ps[R]['root_provider_uuid'] == R and
                  ps[R]['parent_provider_uuid'] is None),
        summaries(lambda ps: 'root_provider_uuid' not in ps[R] and
                  'parent_provider_uuid' not in ps[R]), 10)
    add('1.31 in_tree on candidates', 31,
        lambda v, s: Req('GET', ac + '&in_tree=%s' % E, s),
        jhas(lambda j: n_reqs(j) == 1), st_in(400), 10)
    add('1.32 forbidden aggregates on candidates', 32,
        lambda v, s: Req('GET', ac + '&member_of=!%s' % A1, s),
        jhas(lambda j: n_reqs(j) == 1), st_in(400), 21)
    add('1.33 string group suffixes', 33,
        lambda v, s: Req('GET', '/allocation_candidates?resources_a=VCPU:1'
                         '&resources_b-c=DISK_GB:1&group_policy=none', s),
        jhas(lambda j: n_reqs(j) >= 1), st_in(400), 10)
    add('1.35 root_required on candidates', 35,
        lambda v, s: Req('GET', ac + '&root_required=CUSTOM_T1', s),
        jhas(lambda j: n_reqs(j) == 1), st_in(400), 10)
    add('1.36 same_subtree + resourceless group', 36,
        lambda v, s: Req('GET', '/allocation_candidates?resources1=VCPU:1'
                         '&resources2=CUSTOM_A:1&required3=CUSTOM_T1'
                         '&same_subtree=1,2,3&group_policy=none', s),
        jhas(lambda j: n_reqs(j) == 1), st_in(400), 10)
    add('1.39 required=in: on candidates', 39,
        lambda v, s: Req('GET', ac + '&required=in:CUSTOM_T1,CUSTOM_UNUSED',
                         s),
        jhas(lambda j: n_reqs(j) == 1), st_in(400), 17)
    # 1.39 also introduces *repeating* required[N]; below, a repeated
    # parameter is not a conjunction (one value is used, or the request is
    # refused).  R has VCPU + AVX + T1, E has VCPU and no traits: first value
    # alone -> {R}, last alone -> {E}, conjunction -> nothing.
    rep = 'required=HW_CPU_X86_AVX&required=!CUSTOM_T1'
    add('1.39 repeated required on candidates', 39,
        lambda v, s: Req('GET', ac + '&' + rep, s),
        jhas(lambda j: n_reqs(j) == 0),
        lambda r: r.status == 400 or (
            r.status == 200 and len(r.json['allocation_requests']) == 1),
        22)
    add('1.39 repeated requiredN on candidates', 39,
        lambda v, s: Req('GET', '/allocation_candidates?resources1=VCPU:1&'
                         + rep.replace('required', 'required1'), s),
        jhas(lambda j: n_reqs(j) == 0),
        lambda r: r.status == 400 or (
            r.status == 200 and len(r.json['allocation_requests']) == 1),
        25)
    add('1.39 repeated required on resource_providers', 39,
        lambda v, s: Req('GET', '/resource_providers?resources=VCPU:1&'
                         + rep, s),
        lambda r: r.status == 200 and r.json['resource_providers'] == [],
        lambda r: r.status == 400 or (
            r.status == 200 and len(r.json['resource_providers']) == 1),
        22)
    # response fields / headers
    add('1.1 aggregates link', 1,
        lambda v, s: Req('GET', '/resource_providers/%s' % R, s),
        links_have('aggregates'), neg(links_have('aggregates')))
    add('1.6 traits link', 6,
        lambda v, s: Req('GET', '/resource_providers/%s' % R, s),
        links_have('traits'), neg(links_have('traits')))
    add('1.11 allocations link', 11,
        lambda v, s: Req('GET', '/resource_providers/%s' % R, s),
        links_have('allocations'), neg(links_have('allocations')))
    add('1.15 last-modified and cache-control on GET', 15,
        lambda v, s: Req('GET', '/resource_providers/%s/inventories' % R, s),
        lambda r: 'last-modified' in r.headers and
        r.headers.get('cache-control') == 'no-cache',
        lambda r: 'last-modified' not in r.headers and
        'cache-control' not in r.headers)
    add('1.15 last-modified and cache-control on GET of an empty '
        'collection', 15,
        lambda v, s: Req('GET', '/resource_providers/%s/inventories' % BARE,
                         s),
        lambda r: r.status == 200 and 'last-modified' in r.headers and
        r.headers.get('cache-control') == 'no-cache',
        lambda r: r.status == 200 and 'last-modified' not in r.headers and
        'cache-control' not in r.headers)
    # (1.15: "last-modified" and "cache-control: no-cache" on every GET) -
    # every readable route, with results and with none
    unknown_name = 'no-such-name-anywhere'
    for label, path, frm in (
            ('providers', '/resource_providers', 0),
            ('providers, no match',
             '/resource_providers?name=%s' % unknown_name, 0),
            ('providers, unknown uuid filter',
             '/resource_providers?uuid=%s' % world.N, 0),
            ('one provider', '/resource_providers/%s' % R, 0),
            ('one inventory',
             '/resource_providers/%s/inventories/VCPU' % R, 0),
            ('provider usages', '/resource_providers/%s/usages' % R, 0),
            ('provider usages, nothing used',
             '/resource_providers/%s/usages' % BARE, 0),
            ('provider aggregates',
             '/resource_providers/%s/aggregates' % S, 1),
            ('provider aggregates, none',
             '/resource_providers/%s/aggregates' % BARE, 1),
            ('provider traits', '/resource_providers/%s/traits' % R, 6),
            ('provider traits, none',
             '/resource_providers/%s/traits' % BARE, 6),
            ('provider allocations',
             '/resource_providers/%s/allocations' % R, 0),
            ('provider allocations, none',
             '/resource_providers/%s/allocations' % BARE, 0),
            ('consumer allocations', '/allocations/%s' % K1, 0),
            ('consumer allocations, none', '/allocations/%s' % K3, 0),
            ('traits', '/traits', 6),
            ('traits, no match', '/traits?name=startswith:CUSTOM_ZZZ', 6),
            ('classes', '/resource_classes', 2),
            ('one class', '/resource_classes/VCPU', 2),
            ('usages', '/usages?project_id=%s' % PROJECT, 9),
            ('usages, unknown project', '/usages?project_id=nobody', 9),
            ('candidates', '/allocation_candidates?resources=VCPU:1', 10),
            ('candidates, none',
             '/allocation_candidates?resources=VCPU:99999', 10)):
        add('1.15 last-modified and cache-control on GET (%s)' % label, 15,
            lambda v, s, path=path: Req('GET', path, s),
            lambda r: r.status == 200 and 'last-modified' in r.headers and
            r.headers.get('cache-control') == 'no-cache',
            lambda r: r.status == 200 and 'last-modified' not in r.headers
            and 'cache-control' not in r.headers, frm)
    add('1.15 last-modified on PUT with body', 15,
        lambda v, s: Req('PUT', '/resource_providers/%s' % E, s,
                         {'name': 'empty2'}),
        lambda r: r.status == 200 and 'last-modified' in r.headers,
        lambda r: r.status == 200 and 'last-modified' not in r.headers)
    add('1.23 code in error responses', 23,
        lambda v, s: Req('GET', '/resource_providers/%s' % world.N, s),
        both(st_in(404), jhas(lambda j: 'code' in j['errors'][0])),
        both(st_in(404), jhas(lambda j: 'code' not in j['errors'][0])))
    add('1.23 concurrent_update code on generation conflict', 23,
        lambda v, s: Req('PUT', '/resource_providers/%s/inventories' % E, s,
                         {'resource_provider_generation': 99,
                          'inventories': {}}),
        both(st_in(409), jhas(lambda j: j['errors'][0]['code'] ==
                              'placement.concurrent_update')),
        both(st_in(409), jhas(lambda j: 'code' not in j['errors'][0])))
    add('1.7 bodiless PUT resource_classes', 7,
        lambda v, s: Req('PUT', '/resource_classes/CUSTOM_NEW7', s),
        st_in(201), st_in(400, 415), 2)
    add('1.7 PUT resource_classes existing is 204', 7,
        lambda v, s: Req('PUT', '/resource_classes/CUSTOM_A', s),
        st_in(204), st_in(400, 415), 2)
    add('1.2 rename resource class with body (until 1.6)', 2,
        lambda v, s: Req('PUT', '/resource_classes/CUSTOM_UNUSED', s,
                         {'name': 'CUSTOM_RENAMED'}) if v < 7 else
        Req('GET', '/resource_classes/CUSTOM_A', s),
        st_in(200), st_in(404))
    return F


def _fix_force(body):
    """'force' markers mean: include the field although the version would
    not need it."""
    return body


def run_shard(spec, res):
    from pv import use_repo
    use_repo()
    from pv.histrun import Service
    from placement import handler as phandler
    svc = Service()
    try:
        svc.fresh()
        world.build(svc.client)
        rr = svc.client.call('POST', '/resource_providers',
                             {'name': 'sibling', 'uuid': SIB,
                              'parent_provider_uuid': R})
        assert rr.status == 200, rr.status
        rr = svc.client.call(
            'PUT', '/resource_providers/%s/inventories' % SIB,
            {'resource_provider_generation': 0,
             'inventories': {'SRIOV_NET_VF': {'total': 8}}})
        assert rr.status == 200, rr.status
        rr = svc.client.call('PUT', '/allocations/%s' % KOLD, {
            'allocations': {E: {'resources': {'VCPU': 1}}},
            'project_id': 'old-pj', 'user_id': 'old-us',
            'consumer_generation': None}, '1.37')
        assert rr.status == 204, (rr.status, rr.body)
        rr = svc.client.call('POST', '/resource_providers',
                             {'name': 'bare', 'uuid': BARE})
        assert rr.status == 200, rr.status
        rr = svc.client.call(
            'POST', '/resource_providers/%s/inventories' % R,
            {'resource_class': 'DISK_GB', 'total': 1, 'reserved': 1})
        assert rr.status == 201, (rr.status, rr.body)
        state = spec.get('state', 0)
        if state == 1:
            # a second prepared state: more consumers / providers
            svc.client.call('PUT', '/allocations/%s' % world.K3, {
                'allocations': {E: {'resources': {'VCPU': 1}}},
                'project_id': 'p3', 'user_id': 'u3',
                'consumer_generation': None, 'consumer_type': 'OTHER'})
            svc.client.call('DELETE', '/allocations/%s' % world.K3)
        elif state == 2:
            svc.client.call('PUT', '/traits/CUSTOM_EXTRA')
            svc.client.call('POST', '/resource_providers',
                            {'name': 'lonely',
                             'uuid': '66666666-6666-4666-8666-666666666666'})
        base = svc.app.snapshot(svc.app.db_path + '.world')
        d0 = svc.dump()
        ops = world.operations(d0)
        routes = sorted(r for r in phandler.ROUTE_DECLARATIONS
                        if r not in ('', '/'))

        def send(req):
            svc.app.restore(base)
            if req['path'].startswith('/reshaper'):
                req['roles'] = 'service'
            return svc.client.send(req)

        def header_check(resp, setting, what):
            res.count('header_checks')
            want = 'placement %s' % applied(setting)
            got = resp.headers.get('openstack-api-version')
            vary = resp.headers.get('vary', '')
            if got != want:
                res.violation(
                    'C14|version-header-wrong|%s' % what.split(' @')[0],
                    '%s: openstack-api-version=%r, expected %r'
                    % (what, got, want), {'setting': setting})
            if 'openstack-api-version' not in vary.lower():
                how = ('error-raised-through-microversion-middleware'
                       if resp.http_raised else
                       'returned-response|%s' % what.split(' @')[0])
                res.violation(
                    'C14|vary-header-missing|%d|%s' % (resp.status, how),
                    '%s: status %d, vary=%r' % (what, resp.status, vary),
                    {'setting': setting})

        if spec['part'] == 'avail':
            settings = [s for i, s in enumerate(SETTINGS)
                        if i % spec['of'] == spec['slice']]
            for setting in settings:
                v = minor(setting)
                for route in routes:
                    declared = phandler.ROUTE_DECLARATIONS[route]
                    for m in METHODS:
                        key = (m, route)
                        if key in ops:
                            src = ops[key]
                            req = Req(m, src['path'], setting, src['body'])
                        else:
                            req = Req(m, world.concrete_path(route), setting,
                                      {} if m in ('PUT', 'POST', 'PATCH')
                                      else None)
                        resp = send(req)
                        res.count('probes')
                        res.count('availability_probes')
                        res.seen('%s %s' % key, setting)
                        what = '%s %s @%s' % (m, route, setting)
                        wit = {'request': req.brief(),
                               'response': resp.brief()}
                        header_check(resp, setting, what)
                        route_intro = min(
                            [INTRO.get((mm, route), (0, 0))[0]
                             for mm in declared] or [0])
                        if m in declared:
                            n, below = INTRO.get(key, (0, None))
                            if v < n:
                                if resp.status != below:
                                    res.violation(
                                        'C14|available-before-introduction|'
                                        '%s %s' % key,
                                        '%s: status %d, expected %d (introduc'
                                        'ed at 1.%d)' % (what, resp.status,
                                                         below, n), wit)
                            elif resp.status in (404, 405, 406) or \
                                    resp.status >= 500:
                                res.violation(
                                    'C14|unavailable-after-introduction|'
                                    '%s %s|%d' % (key[0], key[1],
                                                  resp.status),
                                    '%s: status %d although introduced at '
                                    '1.%d' % (what, resp.status, n), wit)
                        else:
                            ok = (405,) if v >= route_intro else (404, 405)
                            if m == 'HEAD' and 'GET' in declared:
                                ok = ok + (200, 204, 400, 404)
                            if resp.status not in ok:
                                res.violation(
                                    'C14|undefined-method-status|%s %s|%d' % (
                                        m, route, resp.status),
                                    '%s: status %d, expected %s' % (
                                        what, resp.status, ok), wit)
            if spec['slice'] == 0:
                for bad in BAD_VERSIONS + GARBAGE:
                    for route in routes[:6] + ['/']:
                        req = Req('GET', world.concrete_path(route)
                                  if route != '/' else '/', bad)
                        resp = send(req)
                        res.count('probes')
                        res.count('availability_probes')
                        res.seen('GET %s' % route, 'bad:' + bad)
                        want = (406,) if bad in BAD_VERSIONS else (400, 406)
                        if resp.status not in want:
                            res.violation(
                                'C14|out-of-range-version-status|%s|%d' % (
                                    'range' if bad in BAD_VERSIONS
                                    else 'garbage', resp.status),
                                'GET %s with version %r: %d, expected %s' % (
                                    route, bad, resp.status, want),
                                {'request': req.brief()})
                # root document at every setting
                for setting in SETTINGS:
                    resp = send(Req('GET', '/', setting))
                    res.count('probes')
                    res.count('availability_probes')
                    if resp.status != 200:
                        res.violation('C14|root-unavailable',
                                      'GET / @%s: %d' % (setting,
                                                         resp.status), {})
                    else:
                        header_check(resp, setting, 'GET / @%s' % setting)
                # error responses produced above the handlers
                for setting in ('1.0', '1.23', '1.39', 'latest', None):
                    for req in (
                            Req('GET', '/no_such_route', setting),
                            Req('GET', '/resource_providers/%s/inventories'
                                % world.N, setting),
                            Req('GET', '/resource_providers', setting,
                                token='nobody:proj'),
                            Req('POST', '/resource_providers', setting,
                                raw=b'{"name": "x"}', ctype=None)):
                        resp = send(req)
                        res.count('probes')
                        res.count('availability_probes')
                        res.seen('error-path %s %s' % (req['method'],
                                                       req['path'][:20]),
                                 setting, req['token'])
                        if resp.status not in (400, 403, 404):
                            res.violation(
                                'C14|error-path-status|%d' % resp.status,
                                '%s %s: %d' % (req['method'], req['path'],
                                               resp.status), {})
                        header_check(resp, setting, 'error path %s %s @%s' % (
                            req['method'], req['path'][:30], setting))
                res.sample({'route': 'DELETE /resource_providers/{uuid}/'
                            'inventories', 'below 1.5': 405,
                            'from 1.5': 'not 404/405'})
        else:
            feats = features(d0)
            mine = [f for i, f in enumerate(feats)
                    if i % spec['of'] == spec['slice']]
            res.count('features', len(mine))
            for name, n, build, present, absent, frm in mine:
                # second pass: the versions below the feature's once more,
                # AFTER the versions that have it were served by this
                # process (what a version exposes does not depend on what
                # was requested before)
                below = [x for x in SETTINGS if frm <= minor(x) < n]
                again = below[-2:] + below[:1] if len(below) > 3 else below
                for setting in list(SETTINGS) + again:
                    v = minor(setting)
                    if v < frm:
                        continue
                    req = build(v, setting)
                    # resolve 'force' markers of alloc_body
                    b = req['body']
                    if isinstance(b, dict):
                        if b.get('project_id') is None and \
                                'project_id' in b:
                            pass
                    resp = send(req)
                    res.count('probes')
                    res.count('feature_probes')
                    res.seen(name, setting)
                    wit = {'request': req.brief(),
                           'response': resp.brief(),
                           'body': resp.body[:400].decode('utf-8',
                                                          'replace')}
                    if resp.status < 500 and resp.status != 406:
                        header_check(resp, setting, '%s @%s' % (name,
                                                                setting))
                    if v >= n:
                        if not present(resp):
                            res.violation(
                                'C14|feature-missing-from-its-version|%s'
                                % name,
                                '%s at %s (>= 1.%d): presence predicate '
                                'fails, status %d' % (name, setting, n,
                                                      resp.status), wit)
                    else:
                        if not absent(resp):
                            res.violation(
                                'C14|feature-present-before-its-version|%s'
                                % name,
                                '%s at %s (< 1.%d): absence predicate '
                                'fails, status %d' % (name, setting, n,
                                                      resp.status), wit)
            if mine:
                res.sample({'feature': mine[0][0], 'introduced': mine[0][1]})
    finally:
        svc.close()
