"""C08 - no dangling records; in-use entities cannot be removed."""
from pv import conc, histrun, monitors
from pv.gen.history import HistoryGen, Names

META = {
    'level': 'exploration',
    'evaluations': 'states_checked',
    'rule': 'generated histories weighted to create/replace/delete of every '
            'entity kind; one evaluation = one post-request table dump joined '
            'for dangling references + the DELETE status rule; distinct = '
            '(refusal kind | cascade class) actually exercised with a '
            'reference at stake; plus histories in which half of the writes '
            'meet one injected database fault (no dangling reference '
            'afterwards, whatever the answer)'
            ' plus a concurrent part: the C05-C07 scenario catalogue (and provider-tree races) run under the transaction-granularity scheduler, the same oracle evaluated on every committed state / committing step of every explored interleaving',
    'floors': {'refusals_due': 5, 'cascades_nontrivial': 1,
               'faulted_requests': 100,
               'concurrent_states_checked': 100},
    'assumptions': ['SQLite backend', 'sequential histories + committed-'
                    'state sequences of transaction-level interleavings of '
                    'request pairs/triples'],
    'shard_timeout': 3000,
}

WEIGHTS = {'post_rp': 8, 'put_rp': 2, 'delete_rp': 7,
           'put_invs': 8, 'post_inv': 4, 'put_inv': 2, 'delete_inv': 6,
           'delete_invs': 3, 'put_trait': 4, 'delete_trait': 5,
           'put_rp_traits': 6, 'delete_rp_traits': 1, 'put_rp_aggs': 4,
           'post_rc': 5, 'put_rc': 3, 'delete_rc': 6,
           'put_alloc': 10, 'post_allocs': 5, 'delete_alloc': 4,
           'reshaper': 6}


CONC = conc.invariant_scenarios(include_tree=True)


def plan(tier, seed, scale):
    shards = histrun.plan_seeds(
        tier, seed, scale, 320, 6400, 20 if tier == 'quick' else 100,
        extra={'steps': 80 if tier == 'quick' else 100})
    histrun.plan_faulted(shards, tier, seed, scale)
    n = max(1, int(len(CONC) * min(scale, 1)))
    for sh in conc.plan_scenarios(n, tier, seed, per=max(1, (n + 7) // 8)):
        sh['conc'] = True
        shards.append(sh)
    return shards


def conc_shard(spec, res):
    def per_state(d, wit):
        for kind, detail in monitors.c08_state(d):
            res.violation(
                'C08|%s|concurrent|%s' % (kind, wit['scenario']),
                'committed state after step %s of [%s]: %s %s' % (
                    wit['after_step'], wit['transaction_order'], kind,
                    detail), wit)
    conc.run_invariants('C08', CONC, spec, res, per_state=per_state)


def fault_shard(spec, res):
    def make_gen(rng):
        gen = HistoryGen(rng, Names(rng), WEIGHTS)
        gen.dup_list = True
        return gen
    histrun.run_faulted_histories(
        'C08', spec, res, make_gen,
        lambda d: [(k, str(x)) for k, x in monitors.c08_state(d)])


def run_shard(spec, res):
    if spec.get('conc'):
        return conc_shard(spec, res)
    if spec.get('faulted'):
        return fault_shard(spec, res)
    svc = histrun.Service()
    try:
        for i in range(spec['first'], spec['first'] + spec['count']):
            rng = histrun.hist_rng(spec, i)
            svc.fresh()
            gen = HistoryGen(rng, Names(rng), WEIGHTS)
            gen.dup_list = True
            histrun.run_history(svc, gen, spec['steps'], [monitors.c08], res,
                                hist_id=i)
            res.count('histories')
        res.sample({'history': i, 'last_requests': svc.client.history(6)})
    finally:
        svc.close()
