"""C08 - no dangling records; in-use entities cannot be removed."""
from pv import histrun, monitors
from pv.gen.history import HistoryGen, Names

META = {
    'level': 'exploration',
    'evaluations': 'states_checked',
    'rule': 'generated histories weighted to create/replace/delete of every '
            'entity kind; one evaluation = one post-request table dump joined '
            'for dangling references + the DELETE status rule; distinct = '
            '(refusal kind | cascade class) actually exercised with a '
            'reference at stake',
    'floors': {'refusals_due': 5, 'cascades_nontrivial': 1},
    'assumptions': ['SQLite backend', 'sequential requests'],
    'shard_timeout': 3000,
}

WEIGHTS = {'post_rp': 8, 'put_rp': 2, 'delete_rp': 7,
           'put_invs': 8, 'post_inv': 4, 'put_inv': 2, 'delete_inv': 6,
           'delete_invs': 3, 'put_trait': 4, 'delete_trait': 5,
           'put_rp_traits': 6, 'delete_rp_traits': 1, 'put_rp_aggs': 4,
           'post_rc': 5, 'put_rc': 3, 'delete_rc': 6,
           'put_alloc': 10, 'post_allocs': 5, 'delete_alloc': 4,
           'reshaper': 6}


def plan(tier, seed, scale):
    return histrun.plan_seeds(tier, seed, scale, 320, 6400,
                              20 if tier == 'quick' else 100,
                              extra={'steps': 80 if tier == 'quick' else 100})


def run_shard(spec, res):
    svc = histrun.Service()
    try:
        for i in range(spec['first'], spec['first'] + spec['count']):
            rng = histrun.hist_rng(spec, i)
            svc.fresh()
            gen = HistoryGen(rng, Names(rng), WEIGHTS)
            histrun.run_history(svc, gen, spec['steps'], [monitors.c08], res,
                                hist_id=i)
            res.count('histories')
        res.sample({'history': i, 'last_requests': svc.client.history(6)})
    finally:
        svc.close()
