"""C19 - standard traits/classes present and immutable; custom ones namespaced."""
import re
import sqlite3
from urllib.parse import quote

from pv import conc, dbdump, histrun, monitors
from pv.client import Req

META = {
    'level': 'exploration',
    'evaluations': 'states_checked',
    'rule': 'histories of trait / resource-class create, rename (1.2-1.6), '
            'delete with "restarts" (start-up synchronisation re-run) '
            'interleaved (also: a start-up failing on an injected database '
            'error followed by a start-up in the same process), from empty, '
            'partially synchronised (random unused '
            'standard rows removed by raw SQL) and full databases, names '
            'from a boundary set (254/255/256 chars, lower case, trailing '
            'newline, unicode look-alikes, standard names); one evaluation = '
            'one post-request check of the traits / resource_classes tables; '
            'distinct = (operation, name class, status, sync phase)',
    'floors': {'concurrent_schedules': 50, 'restarts': 10, 'partial_resyncs': 3, 'failed_startups': 3, 'standard_refusals': 5,
               'creates_existing': 5, 'custom_classes_created': 5},
    'assumptions': ['SQLite backend', 'sequential histories + transaction-'
                    'level interleavings of racing creations/deletions',
                    'os-traits / os-resource-classes as installed in /venv'],
    'shard_timeout': 3000,
}

CUSTOM_RX = re.compile(r'^CUSTOM_[A-Z0-9_]+\Z')
RP = '99999999-9999-4999-8999-999999999999'


CONC = conc.scenarios_names()


def plan(tier, seed, scale):
    shards = histrun.plan_seeds(
        tier, seed, scale, 200, 4000, 13 if tier == 'quick' else 100,
        extra={'steps': 50 if tier == 'quick' else 80})
    for sh in conc.plan_scenarios(len(CONC), tier, seed, per=2):
        sh['conc'] = True
        shards.append(sh)
    return shards


def conc_shard(spec, res):
    """racing creations / deletions: every committed state keeps the table
    invariants, nothing ends as a 5xx, every name answered 2xx on creation
    exists afterwards"""
    import os_resource_classes as orc
    import os_traits
    std_traits = list(os_traits.get_traits())
    std_classes = list(orc.STANDARDS)

    def per_state(d, wit):
        sub = type('R', (), {})()
        # (the 'restart:' scenarios start from a database in which one
        # standard name is missing until the start-up in the schedule has
        # run: completeness is judged at the end)
        check_state(d, None, res, std_traits, std_classes,
                    'concurrent [%s] %s' % (wit['transaction_order'],
                                            wit['scenario']), wit,
                    synced=not wit['scenario'].startswith('restart:'))
        # (a trait deleted while still / again associated: with enforced
        # foreign keys the statement fails, without them the row dangles -
        # a defect either way, D38 / D39)
        if any(k == 'rptrait-trait' for k, _ in monitors.c08_state(d)):
            res.count('fk_unenforced_dangling_trait_association_seen')
            res.violation(
                'C19|dangling-trait-association|concurrent|%s'
                % wit['scenario'],
                'committed state after step %s of [%s]: an association '
                'refers to a trait that does not exist' % (
                    wit['after_step'], wit['transaction_order']), wit)

    def at_end(d0, final, reqs, results, wit):
        if wit['scenario'].startswith('restart:') and all(
                r is not None and r.status < 500 for r in results.values()):
            check_state(final, None, res, std_traits, std_classes,
                        'after the start-up in [%s] %s' % (
                            wit['transaction_order'], wit['scenario']), wit)
        for n, r in results.items():
            if r is None or r.status >= 500:
                res.violation(
                    'C19|5xx|concurrent|%s' % wit['scenario'],
                    '[%s] request %s answered %s (%s)' % (
                        wit['transaction_order'], n,
                        r.status if r is not None else None,
                        r.escaped if r is not None else None), wit)
                continue
            req = reqs[n]
            if 200 <= r.status < 300 and req['method'] in ('PUT', 'POST') \
                    and '/resource_classes' in req['path'] and \
                    req['version'] != '1.2':
                name = (req['body'] or {}).get('name') or \
                    req['path'].rsplit('/', 1)[-1]
                other_deleted = any(
                    q['method'] == 'DELETE' and q['path'].endswith(name) and
                    results[m] is not None and results[m].status == 204
                    for m, q in reqs.items())
                if name not in final.classes and not other_deleted:  # noqa
                    res.violation(
                        'C19|created-class-missing|concurrent|%s'
                        % wit['scenario'],
                        '[%s] %s answered %d for %s but the class does not '
                        'exist' % (wit['transaction_order'], n, r.status,
                                   name), wit)
    conc.run_invariants('C19', CONC, spec, res, per_state=per_state,
                        at_end=at_end, max_schedules=60)


def name_pool(rng, kind):
    base = ['CUSTOM_N1', 'CUSTOM_N2', 'CUSTOM_N3', 'CUSTOM_N4']
    odd = [('len254', 'CUSTOM_' + 'L' * 247), ('len255', 'CUSTOM_' + 'L' * 248),
           ('len256', 'CUSTOM_' + 'L' * 249), ('lower', 'custom_lower'),
           ('newline', 'CUSTOM_NL\n'), ('unicode', 'CUSTOM_ΑB'),
           ('dash', 'CUSTOM_A-B'), ('bare', 'CUSTOM_'), ('noprefix', 'NOPE_X'),
           ('space', 'CUSTOM_A B'),
           # names that mean something else to a JSON / URL / SQL layer
           ('json-escape', 'CUSTOM_\\u0041'), ('backslash', 'CUSTOM_A\\\\B'),
           ('quote', 'CUSTOM_A"B'), ('json-escape2', 'CUSTOM_\\u005f'),
           ('percent', 'CUSTOM_%41'), ('tab', 'CUSTOM_A\tB'),
           ('slash', 'CUSTOM_A/B'), ('nul', 'CUSTOM_A\x00B'),
           # what \d, \w and str.isupper()/isalnum() take for digits/letters
           ('unicode-digit', 'CUSTOM_N\u0663'),
           ('fullwidth-digit', 'CUSTOM_\uff11'),
           ('fullwidth-letter', 'CUSTOM_\uff21'),
           ('superscript', 'CUSTOM_N\u00b2'), ('roman', 'CUSTOM_\u2167'),
           ('standard', 'HW_CPU_X86_AVX' if kind == 'trait' else 'VCPU'),
           ('standard2', 'COMPUTE_NODE' if kind == 'trait' else 'DISK_GB')]
    if rng.random() < 0.65:
        return 'plain', rng.choice(base)
    return rng.choice(odd)


def check_state(d, raw_con, res, std_traits, std_classes, what, wit,
                synced=True):
    res.count('states_checked')
    # duplicates
    for tbl in ('traits', 'resource_classes'):
        names = [r['name'] for r in d.raw[tbl]]
        if len(names) != len(set(names)):
            res.violation('C19|duplicate-name|%s' % tbl,
                          '%s: duplicate rows in %s' % (what, tbl), wit)
    ids = [r['id'] for r in d.raw['resource_classes']]
    if len(ids) != len(set(ids)):
        res.violation('C19|duplicate-class-id', what, wit)
    std_cls_index = {n: i for i, n in enumerate(std_classes)}
    for r in d.raw['resource_classes']:
        n, i = r['name'], r['id']
        if n in std_cls_index:
            if i != std_cls_index[n]:
                res.violation('C19|standard-class-wrong-id',
                              '%s: %s has id %d, expected %d' % (
                                  what, n, i, std_cls_index[n]), wit)
        else:
            if not CUSTOM_RX.match(n) or len(n) > 255:
                res.violation(
                    'C19|stored-class-name-not-namespaced|%s' % (
                        'newline' if n.endswith('\n') else
                        'len' if len(n) > 255 else
                        'backslash' if '\\' in n else 'other'),
                    '%s: resource class %r stored' % (what, n), wit)
            if i < 10000:
                res.violation('C19|custom-class-id-below-10000',
                              '%s: %r has id %d' % (what, n, i), wit)
    std_tr = set(std_traits)
    for r in d.raw['traits']:
        n = r['name']
        if n not in std_tr and (not CUSTOM_RX.match(n) or len(n) > 255):
            res.violation(
                'C19|stored-trait-name-not-namespaced|%s' % (
                    'newline' if n.endswith('\n') else
                    'len' if len(n) > 255 else 'other'),
                '%s: trait %r stored' % (what, n), wit)
    if synced:
        miss_t = std_tr - set(d.traits)
        miss_c = set(std_classes) - set(d.classes)
        if miss_t:
            res.violation('C19|standard-trait-missing',
                          '%s: %d standard traits missing, e.g. %s' % (
                              what, len(miss_t), sorted(miss_t)[:3]), wit)
        if miss_c:
            res.violation('C19|standard-class-missing',
                          '%s: standard classes missing: %s' % (
                              what, sorted(miss_c)[:5]), wit)


def run_shard(spec, res):
    if spec.get('conc'):
        return conc_shard(spec, res)
    import os_resource_classes as orc
    import os_traits
    std_traits = list(os_traits.get_traits())
    std_classes = list(orc.STANDARDS)
    from pv import faults
    from pv.sqlwatch import SqlWatch
    svc = histrun.Service()
    watch = SqlWatch(svc.app.engine)
    c = svc.client
    try:
        for i in range(spec['first'], spec['first'] + spec['count']):
            rng = histrun.hist_rng(spec, i)
            svc.fresh()
            start = rng.choice(['full', 'empty', 'partial'])
            if start != 'full':
                con = sqlite3.connect(svc.app.db_path)
                if start == 'empty':
                    con.execute('DELETE FROM traits')
                    con.execute('DELETE FROM resource_classes')
                else:
                    for tbl, names in (('traits', std_traits),
                                       ('resource_classes', std_classes)):
                        for n in rng.sample(names, len(names) // 3):
                            con.execute('DELETE FROM %s WHERE name = ?'
                                        % tbl, (n,))
                con.commit()
                con.close()
                svc.app.restart()
                res.count('restarts')
                if start == 'partial':
                    res.count('partial_resyncs')
            d = svc.dump()
            check_state(d, None, res, std_traits, std_classes,
                        'after start-up sync from %s db' % start, {})
            res.seen('startup', start)
            # second sync must be a no-op
            svc.app.restart()
            res.count('restarts')
            d2 = svc.dump()
            if dbdump.diff(d, d2, with_aux=True) or d.raw['traits'] != \
                    d2.raw['traits'] or d.raw['resource_classes'] != \
                    d2.raw['resource_classes']:
                res.violation('C19|second-sync-changed-state',
                              'start-up sync from %s db is not idempotent'
                              % start, {})
            c.call('POST', '/resource_providers', {'name': 'p', 'uuid': RP})
            max_id_seen = 9999
            for step in range(spec['steps']):
                before = svc.dump()
                op = rng.choice(['put_trait', 'put_trait', 'delete_trait',
                                 'post_rc', 'post_rc', 'put_rc7', 'put_rc2',
                                 'delete_rc', 'delete_rc', 'assoc', 'inv',
                                 'restart', 'partial', 'failed-start'])
                what = op
                wit = None
                if op == 'restart':
                    svc.app.restart()
                    res.count('restarts')
                    after = svc.dump()
                    if before.raw['traits'] != after.raw['traits'] or \
                            before.raw['resource_classes'] != \
                            after.raw['resource_classes']:
                        res.violation('C19|resync-changed-state',
                                      'restart changed traits/classes', {
                                          'history': c.history(20)})
                    check_state(after, None, res, std_traits, std_classes,
                                'restart', {'history': c.history(20)})
                    res.seen('restart', 'mid-history')
                    continue
                if op == 'failed-start':
                    # a start-up that fails on a database error, then the
                    # application is loaded again in the same process
                    used_t = {t for (_, t) in before.rp_traits}
                    used_c = {k for (_, k) in before.inventories}
                    con = sqlite3.connect(svc.app.db_path)
                    for n in rng.sample(std_traits, 8):
                        if n not in used_t:
                            con.execute('DELETE FROM traits WHERE name=?',
                                        (n,))
                    for n in rng.sample(std_classes, 3):
                        if n not in used_c:
                            con.execute('DELETE FROM resource_classes '
                                        'WHERE name=?', (n,))
                    con.commit()
                    con.close()
                    inj = faults.Injector(rng.randrange(0, 14), 'ERR', watch)
                    watch.start(inj)
                    try:
                        svc.app.restart()
                        failed = False
                    except Exception:
                        failed = True
                    finally:
                        watch.stop()
                    res.count('restarts')
                    if failed:
                        res.count('failed_startups')
                        svc.app.restart(new_process=False)
                        res.count('restarts')
                    after = svc.dump()
                    check_state(after, None, res, std_traits, std_classes,
                                'start-up after a failed start-up in the '
                                'same process' if failed else 'partial resync',
                                {'history': c.history(20),
                                 'fault_at_event': inj.k})
                    res.seen('restart', 'after-failed-start' if failed
                             else 'partial')
                    continue
                if op == 'partial':
                    used_t = {t for (_, t) in before.rp_traits}
                    used_c = {k for (_, k) in before.inventories}
                    con = sqlite3.connect(svc.app.db_path)
                    for n in rng.sample(std_traits, 8):
                        if n not in used_t:
                            con.execute('DELETE FROM traits WHERE name=?',
                                        (n,))
                    for n in rng.sample(std_classes, 3):
                        if n not in used_c:
                            con.execute('DELETE FROM resource_classes '
                                        'WHERE name=?', (n,))
                    con.commit()
                    con.close()
                    svc.app.restart()
                    res.count('restarts')
                    res.count('partial_resyncs')
                    after = svc.dump()
                    check_state(after, None, res, std_traits, std_classes,
                                'partial resync', {'history': c.history(20)})
                    # custom rows must be untouched
                    bc = {r['name']: r['id']
                          for r in before.raw['resource_classes']
                          if r['id'] >= 10000}
                    ac = {r['name']: r['id']
                          for r in after.raw['resource_classes']
                          if r['id'] >= 10000}
                    if bc != ac:
                        res.violation('C19|resync-changed-custom-classes',
                                      '%r -> %r' % (bc, ac), {})
                    res.seen('restart', 'partial')
                    continue
                if op in ('put_trait', 'delete_trait'):
                    nclass, name = name_pool(rng, 'trait')
                    m = 'PUT' if op == 'put_trait' else 'DELETE'
                    req = Req(m, '/traits/%s' % quote(name, safe=''),
                              rng.choice(['1.6', '1.39']))
                elif op == 'post_rc':
                    nclass, name = name_pool(rng, 'rc')
                    req = Req('POST', '/resource_classes',
                              rng.choice(['1.2', '1.39']), {'name': name})
                elif op == 'put_rc7':
                    nclass, name = name_pool(rng, 'rc')
                    req = Req('PUT', '/resource_classes/%s'
                              % quote(name, safe=''),
                              rng.choice(['1.7', '1.39']))
                elif op == 'put_rc2':
                    nclass, name = name_pool(rng, 'rc')
                    have = sorted(n for n, i in before.classes.items()
                                  if i >= 10000)
                    src = rng.choice(have) if have and rng.random() < 0.7 \
                        else rng.choice(['VCPU', 'CUSTOM_NOPE', 'DISK_GB'])
                    req = Req('PUT', '/resource_classes/%s'
                              % quote(src, safe=''),
                              rng.choice(['1.2', '1.6']), {'name': name})
                    nclass = '%s<-%s' % (nclass, 'std' if src in std_classes
                                         else 'custom')
                elif op == 'delete_rc':
                    nclass, name = name_pool(rng, 'rc')
                    have = sorted(n for n, i in before.classes.items()
                                  if i >= 10000)
                    if have and rng.random() < 0.5:
                        # prefer the highest custom id (id reuse path)
                        name = max(have, key=lambda n: before.classes[n])
                        nclass = 'highest-custom'
                    req = Req('DELETE', '/resource_classes/%s'
                              % quote(name, safe=''),
                              rng.choice(['1.2', '1.39']))
                elif op == 'assoc':
                    known = sorted(n for n in before.traits
                                   if n.startswith('CUSTOM_'))
                    ts = rng.sample(known, min(len(known), 2)) + \
                        ([rng.choice(std_traits)] if rng.random() < 0.5
                         else [])
                    nclass, name = 'assoc', ','.join(ts)
                    req = Req('PUT', '/resource_providers/%s/traits' % RP,
                              '1.39', {
                                  'resource_provider_generation':
                                  before.providers[RP]['generation'],
                                  'traits': ts})
                else:
                    have = sorted(n for n, i in before.classes.items()
                                  if i >= 10000)
                    invs = {n: {'total': 4} for n in
                            rng.sample(have, min(len(have), 2))}
                    # (standard classes in use as well: deleting them stays
                    # a 400 whatever else is wrong with the request)
                    for n in ('VCPU', 'DISK_GB'):
                        if rng.random() < 0.5:
                            invs[n] = {'total': 8}
                    nclass, name = 'inv', ','.join(invs)
                    req = Req('PUT', '/resource_providers/%s/inventories'
                              % RP, '1.39', {
                                  'resource_provider_generation':
                                  before.providers[RP]['generation'],
                                  'inventories': invs})
                resp = c.send(req)
                after = svc.dump()
                st = resp.status
                what = '%s %s (%s)' % (req['method'], op, nclass)
                wit = {'request': req.brief(), 'response': resp.brief(),
                       'history': c.history(20)}
                res.count('requests')
                res.seen(op, nclass.split('<-')[0], st)
                check_state(after, None, res, std_traits, std_classes, what,
                            wit)
                # standard names immutable
                target_std = (
                    (op == 'delete_trait' and name in std_traits) or
                    (op == 'delete_rc' and name in std_classes) or
                    (op == 'put_rc2' and 'std' in nclass.split('<-')[-1]))
                if target_std:
                    res.count('standard_refusals')
                    if st != 400:
                        res.violation(
                            'C19|standard-name-not-refused|%s|%d' % (op, st),
                            '%s on a standard name answered %d' % (what, st),
                            wit)
                    if before.raw['traits'] != after.raw['traits'] or \
                            before.raw['resource_classes'] != \
                            after.raw['resource_classes']:
                        res.violation('C19|standard-name-changed|%s' % op,
                                      what, wit)
                # invalid custom names must not be created
                # (names carried in the URL are judged by what was stored:
                # the router may not hand the handler the same string)
                if op in ('post_rc', 'put_rc2') and 200 <= st < 300:
                    valid = bool(CUSTOM_RX.match(name)) and len(name) <= 255
                    if not valid and name not in std_traits and \
                            name not in std_classes:
                        res.violation(
                            'C19|invalid-name-accepted|%s|%s' % (
                                op, nclass.split('<-')[0]),
                            '%s: name %r accepted with %d' % (what, name,
                                                              st), wit)
                # create-existing: idempotent 204 or 409, never a duplicate
                if op == 'put_trait' and name in before.traits:
                    res.count('creates_existing')
                    if st != 204 and not (name in std_traits and st == 400):
                        res.violation('C19|create-existing-status|trait|%d'
                                      % st, what, wit)
                if op == 'put_rc7' and name in before.classes:
                    res.count('creates_existing')
                    if st != 204 and not (name in std_classes and
                                          st in (204, 400)):
                        res.violation('C19|create-existing-status|class|%d'
                                      % st, what, wit)
                if op == 'post_rc' and name in before.classes:
                    res.count('creates_existing')
                    if st != 409 and not (name in std_classes and
                                          st == 400):
                        res.violation('C19|create-existing-status|post|%d'
                                      % st, what, wit)
                # new custom class ids: >= 10000, not colliding with any id
                # that exists now
                new = {r['name']: r['id']
                       for r in after.raw['resource_classes']}
                old = {r['name']: r['id']
                       for r in before.raw['resource_classes']}
                for n, i_ in new.items():
                    if n not in old:
                        res.count('custom_classes_created')
                        if i_ < 10000:
                            res.violation('C19|new-class-id-below-10000',
                                          '%s: %r got id %d' % (what, n, i_),
                                          wit)
                        if i_ in old.values() and op != 'put_rc2':
                            res.violation('C19|new-class-id-collides',
                                          '%s: %r got id %d already used'
                                          % (what, n, i_), wit)
                        if i_ <= max_id_seen and i_ >= 10000:
                            res.count('class_ids_reused_after_delete')
                        max_id_seen = max(max_id_seen, i_)
            res.count('histories')
        res.sample({'history': i, 'start': start,
                    'last_requests': c.history(5)})
    finally:
        svc.close()
