"""C04 - rejected writes leave no trace; multi-entity writes all-or-nothing."""
from pv import conc, histrun, monitors
from pv.gen.failplace import FailPlace
from pv.gen.history import HistoryGen, Names

META = {
    'level': 'exploration',
    'evaluations': 'rejected_writes_judged',
    'rule': 'histories mixing state-building requests with failure-placement '
            'writes (an m-entry POST /allocations, PUT /allocations, '
            'POST /reshaper, PUT inventories/traits/aggregates valid in the '
            'current state whose n-th entry is made bad by each reason); one '
            'evaluation = one rejected write whose before/after dumps are '
            'compared (generations included); distinct = (route, rejection '
            'reason, position n of m, new/existing consumer mix); plus a '
            'concurrent part: the C05-C07 scenario catalogue and the '
            'provider-tree races run under the transaction-granularity '
            'scheduler; for every request answered 4xx in an explored '
            'interleaving the net effect of ALL commits made by its own '
            'thread (dumps around each) must be empty',
    'floors': {'rejected_writes_judged': 200, 'accepted_multi_judged': 50,
               'fp_requests': 100, 'concurrent_schedules': 100,
               'concurrent_rejected_judged': 100},
    'assumptions': ['SQLite backend',
                    'sequential requests (first part); transaction-'
                    'granularity interleavings of 2-3 requests (second)',
                    'residue admitted: project, user, consumer-type rows and '
                    'unassociated aggregate uuid records'],
    'shard_timeout': 3000,
}

WEIGHTS = {'post_rp': 6, 'put_invs': 10, 'put_alloc': 8, 'post_allocs': 4,
           'put_trait': 3, 'post_rc': 3, 'delete_alloc': 1, 'delete_rp': 1,
           'put_rp': 2, 'reshaper': 2, 'put_inv': 3, 'post_inv': 2,
           'put_rp_traits': 3, 'put_rp_aggs': 3, 'delete_invs': 1}


class Mixed(object):
    def __init__(self, rng, names):
        self.rng = rng
        self.h = HistoryGen(rng, names, WEIGHTS, p_bad=0.15, p_accept=0.06)
        self.f = FailPlace(rng, names)
        self.n_fp = 0

    def next(self, d):
        if len(d.inventories) >= 2 and self.rng.random() < 0.55:
            req = self.f.next(d)
            if req is not None:
                self.n_fp += 1
                return req
        return self.h.next(d)


CONC = conc.invariant_scenarios(include_tree=True, sample_c05=80)


def plan(tier, seed, scale):
    shards = histrun.plan_seeds(tier, seed, scale, 320, 6400,
                                20 if tier == 'quick' else 100,
                                extra={'steps': 70 if tier == 'quick'
                                       else 90})
    n = len(CONC)
    for sh in conc.plan_scenarios(n, tier, seed, per=max(1, (n + 11) // 12)):
        sh['conc'] = True
        shards.append(sh)
    return shards


def run_shard(spec, res):
    if spec.get('conc'):
        return conc.run_invariants('C04', CONC, spec, res,
                                   per_request=monitors.c04_concurrent)
    svc = histrun.Service()
    try:
        for i in range(spec['first'], spec['first'] + spec['count']):
            rng = histrun.hist_rng(spec, i)
            svc.fresh()
            gen = Mixed(rng, Names(rng))
            legacy = histrun.legacy_injector(svc, gen.h.n, rng)
            legacy.mutates = True
            histrun.run_history(svc, gen, spec['steps'], [monitors.c04], res,
                                hist_id=i, after_step=legacy)
            res.count('histories')
            res.count('fp_requests', gen.n_fp)
        res.sample({'history': i, 'last_requests': svc.client.history(4)})
    finally:
        svc.close()
