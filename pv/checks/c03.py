"""C03 - candidates are exactly the combinations the request describes."""
from pv import histrun, refcand
from pv.client import Req
from pv.gen import queries, worlds

META = {
    'level': 'exploration',
    'evaluations': 'queries_compared',
    'rule': 'generated worlds in the bounded scope (<=8 providers, <=3 trees '
            'of depth <=3, 3-4 classes, 4 traits incl. sharing, 3 '
            'aggregates, adversarial inventories and usage) x generated '
            'valid queries (<=1 unsuffixed + <=3 suffixed + resourceless '
            'groups, all filters, microversions 1.10-1.39; a quarter of the '
            'queries aimed at an exclusion boundary or at nested '
            'same_subtree constraints), each world/query '
            'batch under 3 PYTHONHASHSEED values; the real unlimited answer '
            'is compared two-sidedly with a brute-force enumerator written '
            'from the statement (MUST subset of actual subset of MAY, no '
            'duplicates); distinct = (query feature set, world shape class, '
            'result-size class) with a non-empty reference set',
    'floors': {'nonempty_comparisons': 100, 'worlds': 10},
    'assumptions': ['SQLite backend', 'bounded scope of the quantifier',
                    'where statement and documentation leave latitude the '
                    'oracle is two-sided (see pv/refcand.py)'],
    'shard_timeout': 3000,
}

FEATURE_FLOOR = ['unsuffixed', 'suffixed1', 'suffixed2', 'required',
                 'member_of', 'in_tree', 'policy-isolate', 'same_subtree',
                 'root_required', 'forbidden-trait', 'forbidden-agg',
                 'overlapping-classes']
for _f in FEATURE_FLOOR:
    META['floors']['feature_' + _f] = 1


def plan(tier, seed, scale):
    n_worlds = int((200 if tier == 'quick' else 4000) * scale)
    per = 13 if tier == 'quick' else 80
    nq = 26 if tier == 'quick' else 39
    nx = 11 if tier == 'quick' else 14      # of which aimed families
    shards = []
    i = 0
    while i < n_worlds:
        m = min(per, n_worlds - i)
        for hs in (0, 1, 2):
            shards.append({'seed': seed, 'first': i, 'count': m,
                           'queries': nq, 'exclusion': nx, 'hashseed': hs,
                           'tier': tier})
        i += m
    return shards


def world_shape(v):
    return '%dt%dp%s%s' % (len(v.roots), min(len(v.rps), 7),
                           'N' if v.has_trees else 'F',
                           'S%d' % min(len(v.sharing), 2))


def classify_omission(v, q, entry, got_all):
    """mechanism signature of an omitted entry (DESIGN.md C03)."""
    allocs, mappings = entry
    gs = q['groups']
    if any(not g['resources'] and g['in_tree'] for g in gs.values()):
        return 'resourceless-in_tree'
    used = {u for (u, rc, amt) in allocs}
    if any(u in v.sharing and v.parent[u] for u in used):
        return 'nested-sharing-provider'
    classes = [c for g in gs.values() for c in g['resources']]
    multi = {c for c in classes if classes.count(c) > 1}
    shape = {(u, rc) for (u, rc, amt) in allocs}
    if any(rc in multi for (u, rc) in shape):
        for e in got_all:
            if {(u, rc) for (u, rc, amt) in e[0]} == shape and \
                    e[0] != allocs and (e[1] == mappings or not e[1]):
                return 'merged-amount'
    # some group's fragment consists only of sharing providers and is
    # realisable under >= 2 anchors
    for s, ps in mappings:
        if ps and all(p in v.sharing for p in ps):
            anchors = [r for r in v.roots
                       if all(p in v.usable(r) for p in ps)]
            if len(anchors) >= 2:
                return 'anchor-variant'
    return 'unclassified'


def classify_spurious(v, q, entry, may):
    allocs, mappings = entry
    gs = q['groups']
    classes = [c for g in gs.values() for c in g['resources']]
    multi = {c for c in classes if classes.count(c) > 1}
    shape = {(u, rc) for (u, rc, amt) in allocs}
    for e in may:
        if {(u, rc) for (u, rc, amt) in e[0]} == shape and e[1] == mappings:
            if any(rc in multi for (u, rc) in shape):
                return 'merged-amount'
            return 'amount-differs'
    if any(not g['resources'] and g['in_tree'] for g in gs.values()):
        return 'resourceless-in_tree'
    return 'unclassified'


def run_shard(spec, res):
    svc = histrun.Service()
    try:
        for i in range(spec['first'], spec['first'] + spec['count']):
            rng = histrun.hist_rng(spec, i)
            svc.fresh()
            w = worlds.build_world(svc.client, rng)
            d = svc.dump()
            v = refcand.View(d)
            res.count('worlds')
            for k in range(spec['queries']):
                if k >= spec['queries'] - spec.get('exclusion', 0) and \
                        v.roots:
                    if k % 4 == 3:
                        q = queries.gen_disjoint_classes_query(rng, w, v)
                        res.count('disjoint_classes_queries')
                    elif k % 3 == 2:
                        q = queries.gen_shared_filter_query(rng, w, v)
                        res.count('shared_filter_queries')
                    elif k % 2:
                        q = queries.gen_subtree_query(rng, w, v)
                        res.count('subtree_family_queries')
                    else:
                        q = queries.gen_exclusion_query(rng, w, v)
                        res.count('exclusion_boundary_queries')
                else:
                    q = queries.gen_ac_query(
                        rng, w, view=v if rng.random() < 0.6 else None)
                path = queries.to_path('/allocation_candidates',
                                       queries.ac_pairs(q, rng))
                resp = svc.client.send(Req('GET', path,
                                           '1.%d' % q['version']))
                feats = queries.features(q)
                wit = {'query': path, 'version': q['version'],
                       'world_history': i, 'hashseed': spec['hashseed'],
                       'world': {'providers': {
                           u: {'parent': v.parent[u],
                               'traits': sorted(v.traits[u]),
                               'aggs': sorted(v.aggs[u]),
                               'inv': v.inv[u],
                               'used': {rc: n for (uu, rc), n in
                                        v.used.items() if uu == u}}
                           for u in v.rps}}}
                if resp.status >= 500:
                    where = '%s|%s' % resp.escaped if resp.escaped else '?'
                    res.violation('C03|5xx|%s' % where,
                                  '%s answered %d' % (path, resp.status),
                                  wit)
                    continue
                if resp.status != 200:
                    res.count('non200')
                    res.violation('C03|valid-query-rejected|%d' % resp.status,
                                  '%s answered %d: %s' % (
                                      path, resp.status, resp.brief()), wit)
                    continue
                try:
                    must = refcand.enumerate_candidates(d, q, 'must', view=v)
                    may = refcand.enumerate_candidates(d, q, 'may', view=v)
                except refcand.Limit:
                    res.count('enumeration_cap_skips')
                    continue
                got_list = refcand.from_response(resp.json, q['version'])
                got = set(got_list)
                res.count('queries_compared')
                if must != may:
                    res.count('must_ne_may')
                if len(got_list) != len(got) and q['version'] >= 34:
                    res.violation('C03|duplicate-entry',
                                  '%s returned %d entries, %d distinct' % (
                                      path, len(got_list), len(got)), wit)
                if q['version'] < 34:
                    must_c, may_c, got_c = (refcand.strip_mappings(must),
                                            refcand.strip_mappings(may),
                                            refcand.strip_mappings(got))
                else:
                    must_c, may_c, got_c = must, may, got
                if must:
                    res.count('nonempty_comparisons')
                    for f in feats:
                        res.count('feature_' + f)
                    res.seen(','.join(sorted(feats)), world_shape(v),
                             min(len(must), 5))
                omitted = must_c - got_c
                spurious = got_c - may_c
                for e in sorted(omitted)[:2]:
                    full = e if q['version'] >= 34 else \
                        next(x for x in must if x[0] == e)
                    mech = classify_omission(v, q, full, got)
                    res.violation(
                        'C03|omission|%s' % mech,
                        '%s omits %r (reference has %d entries, answer %d)'
                        % (path, e, len(must_c), len(got_c)),
                        dict(wit, omitted=repr(e),
                             answer=[repr(x) for x in sorted(got_c)][:10]))
                for e in sorted(spurious)[:2]:
                    full = e if q['version'] >= 34 else \
                        next(x for x in got if x[0] == e)
                    mech = classify_spurious(v, q, full, may)
                    res.violation(
                        'C03|spurious|%s' % mech,
                        '%s returns %r which violates the request '
                        '(reference has %d entries, answer %d)' % (
                            path, e, len(may_c), len(got_c)),
                        dict(wit, spurious=repr(e),
                             reference=[repr(x) for x in sorted(may_c)][:10]))
        res.sample({'query': path, 'reference_entries': len(must),
                    'answer_entries': len(got)})
    finally:
        svc.close()
