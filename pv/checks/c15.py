"""C15 - arbitrary input yields well-formed client errors, never a 5xx."""
import json
import sqlite3
from urllib.parse import quote

from pv import dbdump, histrun, rawwsgi, world
from pv.gen.history import HistoryGen, Names
from pv.gen.mutate import Mutator, dumps, split_req
from pv.routes import classify, vnum

META = {
    'level': 'exploration',
    'evaluations': 'requests',
    'rule': 'grammar-based mutation (JSON structure/types/bounds, raw body, '
            'query string, path, headers, method; 0-3 mutations each) of '
            'valid requests to every route, issued through a raw WSGI call '
            'against states that keep evolving and include nested sharing '
            'providers; every response is checked for status >= 500, escaped '
            'exception, WSGI well-formedness, error-document shape and state '
            'change on 400/404/405/406/415; distinct = (route, status, '
            'mutation kind)',
    'floors': {'requests': 2000, 'mutated_requests': 1500,
               'error_documents_checked': 500, 'state_checks': 500},
    'assumptions': ['SQLite backend', 'noauth2 (every request carries a '
                    'token: the property speaks of authenticated requests)',
                    'error-document shape judged only when Accept names '
                    'application/json and neither html nor */*'],
    'shard_timeout': 3000,
}

VERSIONS = ['1.0', '1.7', '1.8', '1.12', '1.22', '1.23', '1.27', '1.28',
            '1.34', '1.36', '1.38', '1.39', '1.39', '1.39', 'latest']
SC = '77777777-7777-4777-8777-777777777777'  # nested sharing provider


def plan(tier, seed, scale):
    n = int((25000 if tier == 'quick' else 600000) * scale)
    per = 1600 if tier == 'quick' else 12500
    shards = []
    i = 0
    while i * per < n:
        shards.append({'seed': seed, 'index': i, 'count': per, 'tier': tier,
                       'hashseed': i % 3})
        i += 1
    return shards


def read_templates(rng, d, names):
    rps = sorted(d.providers) or [names.unknown_uuid]
    u = rng.choice(rps)
    c = rng.choice(names.consumers + sorted(d.consumers))
    a = rng.choice(names.aggs + sorted(d.aggs))
    rc = rng.choice(['VCPU', 'MEMORY_MB', 'DISK_GB', 'CUSTOM_A'])
    tr = rng.choice(['HW_CPU_X86_AVX', 'CUSTOM_T1',
                     'MISC_SHARES_VIA_AGGREGATE'])
    return rng.choice([
        '/', '/resource_providers',
        '/resource_providers?name=rp1',
        '/resource_providers?uuid=%s' % u,
        '/resource_providers?in_tree=%s' % u,
        '/resource_providers?member_of=in:%s,%s' % (a, names.aggs[0]),
        '/resource_providers?member_of=%s&member_of=!%s' % (a, names.aggs[1]),
        '/resource_providers?required=%s,!CUSTOM_T2' % tr,
        '/resource_providers?required=in:%s,CUSTOM_T1&required=!CUSTOM_T2'
        % tr,
        '/resource_providers?resources=%s:1,VCPU:2' % rc,
        '/resource_providers/%s' % u,
        '/resource_providers/%s/inventories' % u,
        '/resource_providers/%s/inventories/%s' % (u, rc),
        '/resource_providers/%s/usages' % u,
        '/resource_providers/%s/aggregates' % u,
        '/resource_providers/%s/traits' % u,
        '/resource_providers/%s/allocations' % u,
        '/allocations/%s' % c,
        '/traits', '/traits?name=in:%s,CUSTOM_T1' % tr,
        '/traits?name=startswith:CUSTOM', '/traits?associated=true',
        '/traits/%s' % tr, '/resource_classes', '/resource_classes/%s' % rc,
        '/usages?project_id=pj0', '/usages?project_id=pj1&user_id=us1',
        '/usages?project_id=pj0&consumer_type=INSTANCE',
        '/allocation_candidates?resources=VCPU:1',
        '/allocation_candidates?resources=VCPU:1,DISK_GB:1&limit=5',
        '/allocation_candidates?resources=%s:1&required=%s&member_of=%s'
        % (rc, tr, a),
        '/allocation_candidates?resources1=VCPU:1&resources2=DISK_GB:1'
        '&group_policy=isolate&required1=%s&member_of2=in:%s' % (tr, a),
        '/allocation_candidates?resources=VCPU:1&resources_x=%s:1'
        '&in_tree=%s&in_tree_x=%s&group_policy=none&root_required=!%s'
        % (rc, u, u, tr),
        '/allocation_candidates?resources1=VCPU:1&resources2=%s:1'
        '&required3=%s&same_subtree=1,2,3&group_policy=none' % (rc, tr),
        '/allocation_candidates?resources=VCPU:1,MEMORY_MB:64,DISK_GB:1'
        '&required=in:%s,CUSTOM_T1&required=!CUSTOM_T2' % tr,
    ])


def exotic_world(client):
    world.build(client)
    c = client
    c.call('POST', '/resource_providers',
           {'name': 'nested-share', 'uuid': SC,
            'parent_provider_uuid': world.E})
    c.call('PUT', '/resource_providers/%s/inventories' % SC, {
        'resource_provider_generation': 0,
        'inventories': {'DISK_GB': {'total': 500}}})
    c.call('PUT', '/resource_providers/%s/traits' % SC, {
        'resource_provider_generation': 1,
        'traits': ['MISC_SHARES_VIA_AGGREGATE']})
    c.call('PUT', '/resource_providers/%s/aggregates' % SC, {
        'resource_provider_generation': 2, 'aggregates': [world.A1]})


def accepts_json_only(headers):
    a = headers.get('Accept')
    if a is None:
        return False
    al = a.lower()
    return 'application/json' in al and 'html' not in al and '*' not in al \
        and 'q=' not in al


def run_shard(spec, res):
    import random
    svc = histrun.Service()
    rng = random.Random('c15/%s/%s' % (spec['seed'], spec['index']))
    names = Names(rng)
    # names that exist in the exotic world are mixed into the pools
    names.rps = names.rps[:4] + [world.R, world.C, world.S, world.E]
    names.consumers = names.consumers[:2] + [world.K1, world.K2]
    names.aggs = [world.A1, world.A2, names.aggs[0]]
    gen = HistoryGen(rng, names, p_bad=0.1)
    mut = Mutator(rng)
    probe = sqlite3.connect(svc.app.db_path)
    from pv import app as appmod
    try:
        svc.fresh()
        exotic_world(svc.client)
        d = svc.dump()

        def data_version():
            return probe.execute('PRAGMA data_version').fetchone()[0]
        dv = data_version()
        for i in range(spec['count']):
            if i and i % 400 == 0:
                # start over from the exotic world now and then
                svc.fresh()
                exotic_world(svc.client)
                d = svc.dump()
                dv = data_version()
            if rng.random() < 0.45:
                from pv.client import Req
                base = Req('GET', read_templates(rng, d, names),
                           rng.choice(VERSIONS))
            else:
                base = gen.next(d)
            method, path, q, body = split_req(base)
            headers = {'X-Auth-Token': 'admin', 'Accept': 'application/json'}
            if base['roles']:
                headers['X-Roles'] = base['roles']
            if base['version'] is not None:
                headers['OpenStack-API-Version'] = \
                    'placement ' + base['version']
            raw = None
            if body is not None:
                headers['Content-Type'] = 'application/json'
            kinds = []
            n_mut = rng.choice([0, 1, 1, 1, 2, 2, 3])
            raw_mutated = False
            for _ in range(n_mut):
                tgt = rng.choice(['body', 'body', 'query', 'query', 'path',
                                  'headers', 'rawbody', 'uuid'])
                if tgt == 'uuid':
                    # respell one uuid somewhere in the request
                    from pv.gen.mutate import respell_uuid
                    where = rng.choice(['path', 'body', 'query'])
                    new = None
                    if where == 'path':
                        new = respell_uuid(rng, path)
                        if new is not None:
                            path = quote(new, safe='/%')
                    elif where == 'body' and body is not None and \
                            not raw_mutated:
                        txt = dumps(body)
                        new = respell_uuid(rng, txt)
                        if new is not None:
                            raw = new.encode('utf-8')
                            raw_mutated = True
                    elif q:
                        i_ = rng.randrange(len(q))
                        if q[i_][1]:
                            new = respell_uuid(rng, q[i_][1])
                            if new is not None:
                                q[i_] = (q[i_][0], quote(new, safe=':,!'))
                    kinds.append('uuid-spelling' if new is not None
                                 else 'uuid-none')
                    continue
                if tgt == 'body' and body is not None and not raw_mutated:
                    body, k = mut.mutate_json(body)
                elif tgt == 'rawbody' and body is not None:
                    raw, k = mut.mutate_raw_body(
                        raw if raw is not None else dumps(body).encode())
                    raw_mutated = True
                elif tgt == 'query' or (tgt in ('body', 'rawbody')
                                        and body is None and q):
                    q, k = mut.mutate_query(q)
                elif tgt == 'path':
                    path, k = mut.mutate_path(path)
                else:
                    headers, m2, k = mut.mutate_headers(headers,
                                                        body is not None)
                    if m2:
                        method = m2
                kinds.append(k)
            if raw is None and body is not None:
                try:
                    raw = dumps(body).encode('utf-8', 'surrogatepass')
                except Exception:
                    raw = b'{}'
            cl = headers.get('Content-Length')
            if cl is not None and cl.strip().isdigit() and \
                    int(cl) > len(raw or b''):
                # declaring more than is sent = a client hanging up mid-body
                headers['Content-Length'] = str(len(raw or b'') // 2)
            qs = '&'.join(k if v is None else '%s=%s' % (k, v)
                          for k, v in q)
            # WSGI strings are bytes-as-latin-1: a client sending raw
            # (unencoded) non-ASCII bytes
            try:
                qs.encode('latin-1')
            except UnicodeError:
                qs = qs.encode('utf-8', 'surrogatepass').decode('latin-1')
            try:
                path.encode('ascii')
            except UnicodeError:
                path = quote(path, safe='/%', errors='surrogatepass')
            n_esc = appmod.ESCAPED['n']
            n_rs = appmod.HTTP_RAISED['n']
            resp = rawwsgi.call(svc.app.wsgi, method, path, qs, headers, raw)
            esc = appmod.ESCAPED['last'] if appmod.ESCAPED['n'] != n_esc \
                else None
            res.count('requests')
            if kinds:
                res.count('mutated_requests')
            route = classify(path)[0] or 'unrouted'
            rname = '%s %s' % (method if method in (
                'GET', 'PUT', 'POST', 'DELETE', 'PATCH', 'HEAD', 'OPTIONS')
                else 'OTHER', route)
            kind_sig = '+'.join(sorted(set(kinds))) or 'valid'
            wit = {'method': method, 'path': path, 'query': qs,
                   'headers': headers,
                   'body': (raw or b'')[:1500].decode('latin-1'),
                   'mutations': kinds}
            if resp.exception is not None:
                res.violation(
                    'C15|escaped-exception|%s|%s' % (
                        rname, type(resp.exception).__name__),
                    '%s %s: %r escaped the WSGI pipeline' % (
                        method, path[:80], resp.exception), wit)
                continue
            st = resp.status
            res.count('status_%dxx' % (st // 100))
            for k in set(kinds) or {'valid'}:
                res.seen(rname, st, k)
            if st >= 500:
                where = '%s|%s' % esc if esc else 'no-escape-recorded'
                wit['response'] = resp.body[:500].decode('utf-8', 'replace')
                res.violation(
                    'C15|5xx|%s|%s' % (rname, where),
                    '%s %s?%s answered %d (%s)' % (method, path[:100],
                                                   qs[:200], st, where),
                    wit)
            for p in resp.problems:
                res.violation('C15|malformed-response|%s|%s' % (
                    rname, p.split(' ')[0] + ' ' + p.split(' ')[1]
                    if ' ' in p else p),
                    '%s %s: %s' % (method, path[:80], p), wit)
            if 400 <= st < 500 and accepts_json_only(headers) and \
                    method != 'HEAD':
                res.count('error_documents_checked')
                j = resp.json
                ok = False
                why = 'not JSON'
                if isinstance(j, dict) and list(j) == ['errors'] and \
                        isinstance(j['errors'], list) and j['errors']:
                    e = j['errors'][0]
                    need = {'status', 'title', 'detail', 'request_id'}
                    v = headers.get('OpenStack-API-Version')
                    ok = isinstance(e, dict) and need <= set(e) and \
                        e['status'] == st
                    why = 'keys %s status %r' % (sorted(e) if isinstance(
                        e, dict) else e, e.get('status') if isinstance(
                        e, dict) else None)
                    applied = resp.headers.get('openstack-api-version', '')
                    if ok and applied.startswith('placement 1.'):
                        minor = int(applied.split('.')[1])
                        if minor >= 23 and 'code' not in e:
                            ok, why = False, 'no code at %s' % applied
                        if minor < 23 and 'code' in e:
                            ok, why = False, 'code below 1.23'
                ctype = resp.headers.get('content-type', '')
                if ok and 'application/json' not in ctype:
                    ok, why = False, 'content-type %r' % ctype
                if not ok:
                    wit['response'] = resp.body[:400].decode('utf-8',
                                                             'replace')
                    res.violation(
                        'C15|error-document-shape|%s|%d' % (rname, st),
                        '%s %s answered %d with a body that is not the '
                        'errors document: %s' % (method, path[:80], st, why),
                        wit)
            # state
            ndv = data_version()
            if ndv != dv:
                nd = svc.dump()
                if st in (400, 404, 405, 406, 415):
                    res.count('state_checks')
                    ch = dbdump.diff(d, nd)
                    if ch:
                        kinds2 = sorted({c.split('[')[0].split(':')[0]
                                         for c in ch})
                        res.violation(
                            'C15|malformed-request-changed-state|%s|%d|%s'
                            % (rname, st, ','.join(kinds2)),
                            '%s %s answered %d but state changed: %s' % (
                                method, path[:80], st, ch[:5]), wit)
                d = nd
                dv = ndv
            elif st in (400, 404, 405, 406, 415):
                res.count('state_checks')
        res.sample({'method': method, 'path': path[:120], 'query': qs[:200],
                    'mutations': kinds, 'status': resp.status})
    finally:
        probe.close()
        svc.close()
