"""C10 - generations move forward on every change and only then."""
from pv import conc, histrun, monitors
from pv.gen.history import HistoryGen, Names

META = {
    'level': 'exploration',
    'evaluations': 'requests_judged',
    'rule': 'generated histories over all write routes + reads; one '
            'evaluation = one request judged on the generation columns of '
            'the dumps around it and on the generation it returned; distinct '
            '= (route, entity kind, what changed | returned-generation)'
            ' plus a concurrent part: the C05-C07 scenario catalogue (and provider-tree races) run under the transaction-granularity scheduler, the same oracle evaluated on every committed state / committing step of every explored interleaving',
    'floors': {'concurrent_schedules': 100,
               'provider_changes_judged': 20, 'placements_judged': 10,
               'consumer_writes_judged': 5,
               'returned_generations_judged': 10},
    'assumptions': ['SQLite backend', 'sequential histories + committed-state sequences of '
                    'transaction-level interleavings of request pairs/triples',
                    'successful writes that change nothing may or may not '
                    'bump a generation (not judged)'],
    'shard_timeout': 3000,
}

WEIGHTS = {'read': 8}


CONC = conc.invariant_scenarios(include_tree=False)


def plan(tier, seed, scale):
    shards = histrun.plan_seeds(tier, seed, scale, 320, 6400,
                              20 if tier == 'quick' else 100,
                              extra={'steps': 80 if tier == 'quick' else 120})
    n = max(1, int(len(CONC) * min(scale, 1)))
    for sh in conc.plan_scenarios(n, tier, seed, per=max(1, (n + 7) // 8)):
        sh['conc'] = True
        shards.append(sh)
    return shards


def conc_shard(spec, res):
    conc.run_invariants('C10', CONC, spec, res, per_step=monitors.c10_concurrent)


def run_shard(spec, res):
    if spec.get('conc'):
        return conc_shard(spec, res)
    svc = histrun.Service()
    try:
        for i in range(spec['first'], spec['first'] + spec['count']):
            rng = histrun.hist_rng(spec, i)
            svc.fresh()
            gen = HistoryGen(rng, Names(rng), WEIGHTS)
            gen.dup_list = True
            histrun.run_history(svc, gen, spec['steps'], [monitors.c10], res,
                                hist_id=i)
            res.count('histories')
        res.sample({'history': i, 'last_requests': svc.client.history(6)})
    finally:
        svc.close()
