"""C10 - generations move forward on every change and only then."""
from pv import conc, histrun, monitors
from pv.gen.history import HistoryGen, Names

META = {
    'level': 'exploration',
    'evaluations': 'requests_judged',
    'rule': 'generated histories over all write routes + reads; one '
            'evaluation = one request judged on the generation columns of '
            'the dumps around it and on the generation it returned; after a '
            'quarter of the steps every generation is read back through '
            'every route reporting one (provider document, listing with '
            'uuid / in_tree, inventories, traits, aggregates, allocations, '
            'usages, consumer allocations) and compared with the stored '
            'one; distinct = (route, entity kind, what changed | '
            'returned-generation | read-back route)'
            ' plus a concurrent part: the C05-C07 scenario catalogue (and provider-tree races) run under the transaction-granularity scheduler, the same oracle evaluated on every committed state / committing step of every explored interleaving',
    'floors': {'concurrent_schedules': 100,
               'provider_changes_judged': 20, 'placements_judged': 10,
               'consumer_writes_judged': 5,
               'returned_generations_judged': 10,
               'generations_read_back': 500},
    'assumptions': ['SQLite backend', 'sequential histories + committed-state sequences of '
                    'transaction-level interleavings of request pairs/triples',
                    'successful writes that change nothing may or may not '
                    'bump a generation (not judged)'],
    'shard_timeout': 3000,
}

WEIGHTS = {'read': 8}


CONC = conc.invariant_scenarios(include_tree=False)


def plan(tier, seed, scale):
    shards = histrun.plan_seeds(tier, seed, scale, 320, 6400,
                              20 if tier == 'quick' else 100,
                              extra={'steps': 80 if tier == 'quick' else 120})
    n = max(1, int(len(CONC) * min(scale, 1)))
    for sh in conc.plan_scenarios(n, tier, seed, per=max(1, (n + 7) // 8)):
        sh['conc'] = True
        shards.append(sh)
    return shards


def conc_shard(spec, res):
    conc.run_invariants('C10', CONC, spec, res, per_step=monitors.c10_concurrent)


def make_readback(svc, rng):
    """after a sampled step: read every provider / consumer generation back
    through every route that reports one and compare it with the stored
    value ("the generation returned by a write equals the one subsequently
    read" - read through the API, by any route)"""
    from pv.client import Req

    def readback(step, res):
        if rng.random() > 0.25:
            return
        d = step.after
        c = svc.client
        seen = {}          # (provider, route) -> reported generation

        def note(u, route, g):
            seen[(u, route)] = g
        r = c.send(Req('GET', '/resource_providers', '1.39'), record=False)
        if r.status == 200:
            for p in r.json['resource_providers']:
                note(p['uuid'], 'GET rps', p['generation'])
        rps = sorted(d.providers)
        for u in rng.sample(rps, min(3, len(rps))):
            for route, path, key in (
                    ('GET rp', '/resource_providers/%s' % u, 'generation'),
                    ('GET rps?uuid', '/resource_providers?uuid=%s' % u, None),
                    ('GET rps?in_tree', '/resource_providers?in_tree=%s' % u,
                     None),
                    ('GET invs', '/resource_providers/%s/inventories' % u,
                     'resource_provider_generation'),
                    ('GET rp_traits', '/resource_providers/%s/traits' % u,
                     'resource_provider_generation'),
                    ('GET rp_aggs', '/resource_providers/%s/aggregates' % u,
                     'resource_provider_generation'),
                    ('GET rp_allocs', '/resource_providers/%s/allocations'
                     % u, 'resource_provider_generation'),
                    ('GET rp_usages', '/resource_providers/%s/usages' % u,
                     'resource_provider_generation')):
                r = c.send(Req('GET', path, '1.39'), record=False)
                if r.status != 200:
                    continue
                if key is None:
                    for p in r.json['resource_providers']:
                        note(p['uuid'], route, p['generation'])
                else:
                    note(u, route, r.json[key])
        for (u, route), g in sorted(seen.items()):
            if u not in d.providers:
                continue
            res.count('generations_read_back')
            res.seen('readback', route)
            if g != d.providers[u]['generation']:
                res.violation(
                    'C10|read-generation-differs-from-stored|%s' % route,
                    '%s reports generation %r for provider %s, stored is %d'
                    % (route, g, u, d.providers[u]['generation']),
                    step.witness())
        cons = sorted(d.consumers)
        for k in rng.sample(cons, min(2, len(cons))):
            r = c.send(Req('GET', '/allocations/%s' % k, '1.39'),
                       record=False)
            if r.status == 200 and 'consumer_generation' in r.json:
                res.count('generations_read_back')
                res.seen('readback', 'GET alloc')
                if r.json['consumer_generation'] != \
                        d.consumers[k]['generation']:
                    res.violation(
                        'C10|read-generation-differs-from-stored|GET alloc',
                        'GET /allocations/%s reports consumer_generation %r,'
                        ' stored is %d' % (k, r.json['consumer_generation'],
                                           d.consumers[k]['generation']),
                        step.witness())
    return readback


def run_shard(spec, res):
    if spec.get('conc'):
        return conc_shard(spec, res)
    svc = histrun.Service()
    try:
        for i in range(spec['first'], spec['first'] + spec['count']):
            rng = histrun.hist_rng(spec, i)
            svc.fresh()
            gen = HistoryGen(rng, Names(rng), WEIGHTS)
            gen.dup_list = True
            histrun.run_history(svc, gen, spec['steps'], [monitors.c10], res,
                                hist_id=i,
                                after_step=make_readback(svc, rng))
            res.count('histories')
        res.sample({'history': i, 'last_requests': svc.client.history(6)})
    finally:
        svc.close()
