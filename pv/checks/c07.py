"""C07 - see DESIGN.md section 5 (deterministic transaction scheduler)."""
from pv import conc

SCEN = conc.scenarios_c07()

META = {
    'level': 'exploration',
    'evaluations': 'schedules',
    'rule': 'claims racing for the last units of an inventory, claims vs inventory shrink / replacement / deletion, vs trait and aggregate updates, vs provider deletion, multi-provider and multi-consumer claims, same-consumer moves, reshape, under every transaction-level interleaving with <=2 preemptions (thorough <=3 + random); oracle: the requests answered 2xx replayed serially (real code, restored snapshot) in some order all succeed and end in the same tables; distinct = (scenario, transaction-order string, outcome vector)',
    'floors': {'schedules': 100, 'scenarios_with_both_outcome_orders': 1,
               'serial_checks': 100},
    'assumptions': ['SQLite backend; each top-level transaction runs '
                    'atomically and in isolation (switches only between '
                    'transactions), as under a serializable DBMS',
                    'independent readers inside a writer see committed data '
                    'only', 'bounded preemptions, not all interleavings'],
    'shard_timeout': 3000,
}


def plan(tier, seed, scale):
    n = max(1, int(len(SCEN) * min(scale, 1)))
    return conc.plan_scenarios(n, tier, seed, per=max(1, (n + 15) // 16))


def run_shard(spec, res):
    conc.run_scenarios('C07', SCEN, spec, res)
