"""C07 - see DESIGN.md section 5 (deterministic transaction scheduler)."""
from pv import conc

SCEN = conc.scenarios_c07() + conc.scenarios_c06()

META = {
    'level': 'exploration',
    'evaluations': 'schedules',
    'rule': 'claims racing for the last units of an inventory, claims vs inventory shrink / replacement / deletion, vs trait and aggregate updates, vs provider deletion, multi-provider and multi-consumer claims, same-consumer moves, reshape, under every transaction-level interleaving with <=2 preemptions (thorough <=3 + random); oracle: the requests answered 2xx replayed serially (real code, restored snapshot) in some order all succeed and end in the same tables; distinct = (scenario, transaction-order string, outcome vector)',
    'floors': {'schedules': 100, 'scenarios_with_both_outcome_orders': 1,
               'serial_checks': 100},
    'assumptions': ['SQLite backend; each top-level transaction runs '
                    'atomically and in isolation (switches only between '
                    'transactions), as under a serializable DBMS',
                    'independent readers inside a writer see committed data '
                    'only', 'bounded preemptions, not all interleavings'],
    'shard_timeout': 3000,
}


def plan(tier, seed, scale):
    n = max(1, int(len(SCEN) * min(scale, 1)))
    shards = conc.plan_scenarios(n, tier, seed, per=max(1, (n + 15) // 16))
    # random request tuples on random reachable states
    n_rand = int((32 if tier == 'quick' else 1600) * scale)
    per = 4 if tier == 'quick' else 100
    for i in range(0, n_rand, per):
        shards.append({'seed': seed, 'first': i,
                       'count': min(per, n_rand - i), 'tier': tier,
                       'hashseed': (i // per) % 3, 'random': True})
    return shards


def run_shard(spec, res):
    if spec.get('random'):
        return conc.run_random('C07', spec, res, use_serial=True)
    conc.run_scenarios('C07', SCEN, spec, res)
