"""C12 - consumers exist exactly while they hold allocations."""
import json
from pv import conc, histrun, monitors
from pv.client import Req
from pv.gen.failplace import FailPlace
from pv.gen.history import HistoryGen, Names

META = {
    'level': 'exploration',
    'evaluations': 'requests_judged',
    'rule': 'allocation histories over 4 consumers at the four microversion '
            'bands with random incomplete_consumer_project_id/user_id per '
            'shard; one evaluation = one completed request after which '
            'consumer rows are compared with allocation rows and with the '
            'attributes of the last successful writer; null-generation '
            'probes on a snapshot; distinct = (route, microversion band, '
            'transition in {create, update, empty, empty-new, delete, '
            'rejected-first}); plus histories in which half of the writes '
            'meet one injected database fault (deadlock without rollback, '
            'generic error, lost connection at a random SQL event) - '
            'afterwards consumer rows and allocation rows must still match; '
            'plus single requests creating / rewriting / emptying N '
            'consumers at once for N around 32, 50, 64, 100, 128 (thorough: '
            'up to 1001)'
            ' plus a concurrent part: the C05-C07 scenario catalogue (and provider-tree races) run under the transaction-granularity scheduler, the same oracle evaluated on every committed state / committing step of every explored interleaving',
    'floors': {'concurrent_schedules': 100, 'faulted_requests': 100,
               'wide_requests_judged': 50,
               'attribute_checks': 100, 'rejected_first_writes': 5,
               'null_generation_probes_accepted': 5},
    'assumptions': ['SQLite backend', 'sequential histories + committed-state sequences of '
                    'transaction-level interleavings of request pairs/triples',
                    'a write below 1.8 to an existing consumer may keep or '
                    'replace project/user by the placeholders (both '
                    'admitted)'],
    'shard_timeout': 3000,
}

WEIGHTS = {'put_alloc': 20, 'post_allocs': 10, 'delete_alloc': 6,
           'reshaper': 6, 'post_rp': 5, 'put_invs': 8, 'put_inv': 2,
           'delete_rp': 1, 'delete_inv': 1, 'put_rp': 0, 'post_inv': 2,
           'delete_invs': 0, 'put_trait': 0, 'delete_trait': 0,
           'put_rp_traits': 0, 'delete_rp_traits': 0, 'put_rp_aggs': 0,
           'post_rc': 2, 'put_rc': 0, 'delete_rc': 0}


CONC = conc.invariant_scenarios(include_tree=False)


def plan(tier, seed, scale):
    shards = histrun.plan_seeds(tier, seed, scale, 320, 6400,
                              20 if tier == 'quick' else 100,
                              extra={'steps': 60 if tier == 'quick' else 80})
    histrun.plan_faulted(shards, tier, seed, scale)
    # many consumers written / emptied by ONE request
    shards.append({'seed': seed, 'first': 0, 'count': 1, 'tier': tier,
                   'hashseed': 0, 'wide': True})
    n = max(1, int(len(CONC) * min(scale, 1)))
    for sh in conc.plan_scenarios(n, tier, seed, per=max(1, (n + 7) // 8)):
        sh['conc'] = True
        shards.append(sh)
    return shards


def state_problems(d):
    held = {c for (c, _, _) in d.allocs}
    rows = set(d.consumers)
    return [('consumer-without-allocations', c) for c in sorted(rows - held)
            ] + [('allocations-without-consumer', c)
                 for c in sorted(held - rows)]


def fault_shard(spec, res):
    def make_gen(rng):
        gen = HistoryGen(rng, Names(rng), WEIGHTS)
        gen.dup_list = True
        return gen
    histrun.run_faulted_histories('C12', spec, res, make_gen, state_problems)


def conc_shard(spec, res):
    def at_end(d0, final, reqs, results, wit):
        held = {c for (c, _, _) in final.allocs}
        rows = set(final.consumers)
        res.count('concurrent_final_states_checked')
        for c in rows - held:
            res.violation(
                'C12|consumer-without-allocations|concurrent|%s' %
                wit['scenario'],
                '[%s]: consumer %s has a record but holds nothing' % (
                    wit['transaction_order'], c), wit)
        for c in held - rows:
            res.violation(
                'C12|allocations-without-consumer|concurrent|%s' %
                wit['scenario'],
                '[%s]: consumer %s holds allocations without a record' % (
                    wit['transaction_order'], c), wit)
    conc.run_invariants('C12', CONC, spec, res, at_end=at_end)


def wide_shard(spec, res):
    """one POST /allocations (or POST /reshaper) that creates, rewrites or
    empties N consumers at once, N around every plausible batch size: after
    each request the consumer records are exactly the consumers holding
    allocations"""
    import uuid as uuidlib
    from pv.client import Req
    svc = histrun.Service()
    c = svc.client
    P = '99999999-0000-4000-8000-000000000001'
    try:
        svc.fresh()
        assert c.call('POST', '/resource_providers',
                      {'name': 'big', 'uuid': P}).status == 200
        assert c.call('PUT', '/resource_providers/%s/inventories' % P, {
            'resource_provider_generation': 0, 'inventories': {
                'VCPU': {'total': 100000}, 'DISK_GB': {'total': 100000}}}
        ).status == 200
        sizes = [31, 32, 33, 49, 50, 51, 64, 65, 99, 100, 101, 128, 129]
        if spec.get('tier') == 'thorough':
            sizes += [199, 200, 201, 255, 256, 257, 499, 500, 501, 999,
                      1000, 1001]
        for n in sizes:
            cons = [str(uuidlib.UUID(int=(n << 32) + i)) for i in range(n)]

            def body(amount, gen, rc='VCPU'):
                return {k: {'allocations': {P: {'resources': {rc: amount}}}
                            if amount else {},
                            'project_id': 'wide-pj', 'user_id': 'wide-us',
                            'consumer_generation': gen,
                            'consumer_type': 'INSTANCE'} for k in cons}

            def judge(what, resp, want_rows):
                d = svc.dump()
                res.count('wide_requests_judged')
                res.seen('wide', what, n)
                wit = {'request': '%s naming %d consumers' % (what, n),
                       'status': resp.status}
                if resp.status != 204:
                    res.violation('C12|wide-request-refused|%s' % what,
                                  '%s for %d consumers answered %d: %s' % (
                                      what, n, resp.status,
                                      resp.body[:200]), wit)
                    return
                probs = state_problems(d)
                mine = [c_ for c_ in d.consumers if c_ in set(cons)]
                if probs or len(mine) != want_rows:
                    res.violation(
                        'C12|%s|wide|%s' % (
                            probs[0][0] if probs else 'consumer-count',
                            what),
                        '%s for %d consumers: %d of their records exist '
                        '(expected %d); %s' % (what, n, len(mine), want_rows,
                                               probs[:3]), wit)
            judge('create by POST', c.send(Req(
                'POST', '/allocations', '1.39', body(1, None))), n)
            judge('rewrite by POST', c.send(Req(
                'POST', '/allocations', '1.39', body(2, 1, 'DISK_GB'))), n)
            judge('empty by POST', c.send(Req(
                'POST', '/allocations', '1.39', body(0, 2))), 0)
            judge('create again by POST', c.send(Req(
                'POST', '/allocations', '1.39', body(1, None))), n)
            g = svc.dump().providers[P]['generation']
            r = c.send(Req('POST', '/reshaper', '1.39', {
                'inventories': {P: {'resource_provider_generation': g,
                                    'inventories': {
                                        'VCPU': {'total': 100000},
                                        'DISK_GB': {'total': 100000}}}},
                'allocations': body(0, 1)}, roles='service'))
            judge('empty by reshaper', r, 0)
    finally:
        svc.close()


def run_shard(spec, res):
    if spec.get('conc'):
        return conc_shard(spec, res)
    if spec.get('faulted'):
        return fault_shard(spec, res)
    if spec.get('wide'):
        return wide_shard(spec, res)
    import random
    crng = random.Random('conf/%s/%s' % (spec['seed'], spec['first']))
    pp = 'incomplete-pj-%d' % crng.randrange(1000)
    pu = 'incomplete-us-%d' % crng.randrange(1000)
    svc = histrun.Service(conf_overrides={
        ('placement', 'incomplete_consumer_project_id'): pp,
        ('placement', 'incomplete_consumer_user_id'): pu})
    try:
        for i in range(spec['first'], spec['first'] + spec['count']):
            rng = histrun.hist_rng(spec, i)
            svc.fresh()
            names = Names(rng)
            gen = HistoryGen(rng, names, WEIGHTS)
            gen.dup_list = True
            fp = FailPlace(rng, names)
            mon = monitors.C12Monitor(pp, pu)

            def probe(step, res_):
                """a consumer that holds nothing (removed, or first write
                rejected) must be creatable with consumer_generation null"""
                if not monitors.is_alloc_write(step.req) and not (
                        step.route == 'alloc' and
                        step.req['method'] == 'DELETE'):
                    return
                d = step.after
                held = {c for (c, _, _) in d.allocs}
                cands = [c for c in step.req['tag'].get('consumers', [])
                         if c not in held]
                cands = [c for c in cands if c == c.lower()]
                if not cands or rng.random() < 0.5:
                    return
                c = cands[0]
                plan, room, free = fp.build_allocs(d, [c], 1)
                if not plan[c]:
                    return
                body = fp.body_for(d, c, plan[c], 28)
                body['consumer_generation'] = None
                snap = svc.app.snapshot(svc.app.db_path + '.probe')
                r = svc.client.send(Req('PUT', '/allocations/%s' % c, '1.28',
                                        body, tag={'op': 'null-gen-probe'}))
                svc.app.restore(snap)
                res_.count('null_generation_probes')
                detail = json.dumps(r.json) if r.json else ''
                if r.status == 204:
                    res_.count('null_generation_probes_accepted')
                elif 'consumer generation conflict' not in detail and \
                        'placement.concurrent_update' not in detail:
                    # refused for a reason that has nothing to do with the
                    # consumer (the probe's amounts did not fit): no verdict
                    res_.count('null_generation_probes_unrelated_refusal')
                else:
                    prev = 'rejected' if step.resp.status >= 400 else \
                        'emptied'
                    res_.violation(
                        'C12|null-generation-write-refused|%s|%s|%d' % (
                            step.rname(), prev, r.status),
                        'consumer %s holds nothing after %s (%d) but a '
                        'write with consumer_generation null is answered '
                        '%d: %s' % (c, step.rname(), step.resp.status,
                                    r.status, r.brief()),
                        step.witness(probe=body))
            legacy = histrun.legacy_injector(
                svc, names, rng, on_migrated=lambda cid: mon.expect.update(
                    {cid: {'project': {pp}, 'user': {pu}, 'type': {None}}}))

            def after(step, res_):
                probe(step, res_)
                legacy(step, res_)
            after.mutates = True
            histrun.run_history(svc, gen, spec['steps'], [mon.step], res,
                                hist_id=i, after_step=after)
            res.count('histories')
        res.sample({'history': i, 'placeholders': [pp, pu],
                    'last_requests': svc.client.history(4)})
    finally:
        svc.close()
