"""C01 - allocation writes never over-commit / break unit constraints."""
from pv import conc, histrun, monitors
from pv.gen.history import HistoryGen, Names

META = {
    'level': 'exploration',
    'evaluations': 'accepted_alloc_writes',
    'rule': 'generated API histories (8 providers, 4 consumers, adversarial '
            'inventories/amounts); one evaluation = one accepted allocation '
            'write judged against the table dump; distinct = (route, '
            '#consumers, #providers, utilisation class before/after in '
            '{noinv, empty, partial, exact, over}, unit-constraint class); '
            'plus histories in which half of the writes meet one injected '
            'database fault (incl. deadlocks with rollback by the DBMS): an '
            'allocation write that is retried or fails never leaves new '
            'over-commitment or an off-unit amount'
            ' plus a concurrent part: the C05-C07 scenario catalogue (and provider-tree races) run under the transaction-granularity scheduler, the same oracle evaluated on every committed state / committing step of every explored interleaving',
    'floors': {'concurrent_schedules': 100, 'faulted_requests': 100,
               'accepted_multi_consumer_post': 1,
               'accepted_reshaper_with_allocs': 1,
               'exact_fit_acceptances': 1,
               'rejected_409_alloc_writes': 1},
    'assumptions': ['SQLite backend', 'sequential histories + committed-state sequences of '
                    'transaction-level interleavings of request pairs/triples',
                    'capacity comparisons on an IEEE rounding boundary are '
                    'counted, not judged'],
    'shard_timeout': 3000,
}

WEIGHTS = {'put_alloc': 22, 'post_allocs': 14, 'reshaper': 9,
           'put_invs': 10, 'put_inv': 6, 'delete_alloc': 2,
           'post_rp': 5, 'put_rp': 1, 'delete_rp': 1, 'put_rp_traits': 1,
           'put_rp_aggs': 1, 'put_trait': 1, 'delete_rc': 1,
           'delete_inv': 2, 'post_inv': 3}


CONC = conc.invariant_scenarios(include_tree=False)


def plan(tier, seed, scale):
    shards = histrun.plan_seeds(tier, seed, scale, 320, 6400, 20 if
                              tier == 'quick' else 100,
                              extra={'steps': 60 if tier == 'quick' else 80})
    histrun.plan_faulted(shards, tier, seed, scale)
    n = max(1, int(len(CONC) * min(scale, 1)))
    for sh in conc.plan_scenarios(n, tier, seed, per=max(1, (n + 7) // 8)):
        sh['conc'] = True
        shards.append(sh)
    return shards


def conc_shard(spec, res):
    conc.run_invariants('C01', CONC, spec, res, per_step=monitors.c01)


def fault_shard(spec, res):
    """an allocation write that meets a database fault (and is retried, or
    fails) never leaves a pair over-committed that was not before, nor a
    held amount off its unit constraints"""
    def make_gen(rng):
        gen = HistoryGen(rng, Names(rng), WEIGHTS)
        gen.dup_list = True
        return gen

    def problems(d, before, req, resp):
        if not monitors.is_alloc_write(req):
            return []
        out = []
        ub = before.usage()
        for pair, used in d.usage().items():
            inv = d.inventories.get(pair)
            if inv is None:
                out.append(('usage-without-inventory-after-fault',
                            '%s/%s' % pair))
                continue
            was = before.inventories.get(pair)
            # (a reshape may shrink an inventory below what consumers it
            # does not mention hold there: over-commitment as the direct
            # result of an inventory change, which C01 admits - only pairs
            # whose inventory the request left alone, or on which it places
            # something, are judged)
            placed_here = any(
                m.get(pair, 0) > 0
                for m in (monitors.placed(req) or {}).values())
            if was != inv and not placed_here:
                continue
            if monitors.capacity_cmp(inv, used) == 'over' and not (
                    was is not None and
                    monitors.capacity_cmp(was, ub.get(pair, 0)) == 'over'):
                out.append(('overcommit-after-fault', '%s/%s used %d' % (
                    pair[0], pair[1], used)))
        changed = {k for k, a in d.allocs.items()
                   if before.allocs.get(k) != a}
        for (c, rp, rc) in changed:
            a = d.allocs[(c, rp, rc)]
            inv = d.inventories.get((rp, rc))
            if inv is not None and a > 0 and (
                    a < inv['min_unit'] or a > inv['max_unit'] or
                    a % inv['step_size']):
                out.append(('unit-constraint-after-fault',
                            '%s holds %d on %s/%s' % (c, a, rp, rc)))
        return out
    histrun.run_faulted_histories('C01', spec, res, make_gen, problems,
                                  kinds=('DL', 'DL', 'DLR', 'ERR', 'CONN'))


def run_shard(spec, res):
    if spec.get('conc'):
        return conc_shard(spec, res)
    if spec.get('faulted'):
        return fault_shard(spec, res)
    svc = histrun.Service()
    try:
        for i in range(spec['first'], spec['first'] + spec['count']):
            rng = histrun.hist_rng(spec, i)
            svc.fresh()
            gen = HistoryGen(rng, Names(rng), WEIGHTS)
            gen.dup_list = True
            histrun.run_history(svc, gen, spec['steps'], [monitors.c01], res,
                                hist_id=i)
            res.count('histories')
        res.sample({'history': i, 'last_requests': svc.client.history(6)})
    finally:
        svc.close()
