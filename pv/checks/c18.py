"""C18 - a crash at any point leaves a state satisfying the core invariants."""
import os

from pv import dbdump, faults, monitors, world
from pv.sqlwatch import kind_of

META = {
    'level': 'fault_enumeration',
    'exhaustive': True,
    'evaluations': 'crash_points',
    'rule': 'write corpus of C17 plus requests on a consumer holding 42 '
            'allocation records on 14 providers; for EVERY crash point of '
            'the fault-free '
            'SQL trace (before each statement / BEGIN / COMMIT / ROLLBACK '
            'event, after each statement, after the last event) a forked '
            'child runs the request and dies by os._exit() at that point - '
            'no finally, no except, no rollback code; the parent reopens the '
            'database file (SQLite replays the hot journal = the DBMS '
            'rolling back the transaction in flight), dumps it and checks '
            'capacity safety, referential integrity, the forest property and '
            'all-or-nothing on providers / inventories / associations / '
            'allocations / consumers holding allocations; distinct = '
            '(request, transaction index, recovered-state class)',
    'floors': {'crash_points': 500, 'requests': 10,
               'recovered_equal_start': 50, 'recovered_equal_final': 20},
    'assumptions': ['SQLite backend (rollback journal) stands in for "the '
                    'database rolls back the transaction in flight"',
                    'single service process; the crash kills it between two '
                    'Python-level SQL events'],
    'shard_timeout': 3000,
}


def plan(tier, seed, scale):
    n = 16
    shards = [{'seed': seed, 'slice': i, 'of': n, 'tier': tier,
               'hashseed': 0} for i in range(n)]
    # a consumer holding 42 allocation records on 14 providers (whatever
    # batches a write or a delete is cut into, it is one atomic unit)
    shards.append({'seed': seed, 'slice': 0, 'of': 1, 'tier': tier,
                   'hashseed': 0, 'wide': True})
    n_rand = int((16 if tier == 'quick' else 640) * scale)
    per = 2 if tier == 'quick' else 40
    for i in range(0, n_rand, per):
        shards.append({'seed': seed, 'slice': 0, 'of': 1, 'tier': tier,
                       'hashseed': (i // per) % 3, 'random': True,
                       'first': i, 'count': min(per, n_rand - i)})
    return shards


def view(d):
    """the invariant-bearing part of a dump"""
    held = {c for (c, _, _) in d.allocs}
    return {
        'providers': {u: (p['name'], p['parent'], p['root'], p['generation'])
                      for u, p in d.providers.items()},
        'inventories': {'%s|%s' % k: tuple(sorted(v.items()))
                        for k, v in d.inventories.items()},
        'rp_traits': sorted(d.rp_traits), 'rp_aggs': sorted(d.rp_aggs),
        'allocs': {'%s|%s|%s' % k: v for k, v in d.allocs.items()},
        'consumers': {c: tuple(sorted((k, v) for k, v in x.items()
                                      if k != 'id'))
                      for c, x in d.consumers.items() if c in held},
        'classes': sorted(d.classes), 'traits': sorted(d.traits),
    }


def overcommitted(d):
    out = set()
    for pair, used in d.usage().items():
        inv = d.inventories.get(pair)
        if inv is not None and monitors.capacity_cmp(inv, used) == 'over':
            out.add(pair)
    return out


KW = 'cccccccc-cccc-4ccc-8ccc-ccccccccccc1'


def wide_corpus(svc):
    """14 more providers with three classes each and one consumer holding
    one unit of everything (42 records); requests that remove, clear or
    rewrite all of it"""
    from pv.client import Req
    c = svc.client
    allocs = {}
    for i in range(14):
        u = 'dddddddd-dddd-4ddd-8ddd-%012d' % i
        r = c.call('POST', '/resource_providers', {'name': 'w%d' % i,
                                                   'uuid': u})
        assert r.status == 200, r.status
        r = c.call('PUT', '/resource_providers/%s/inventories' % u, {
            'resource_provider_generation': 0, 'inventories': {
                'VCPU': {'total': 8}, 'MEMORY_MB': {'total': 1024},
                'DISK_GB': {'total': 100}}})
        assert r.status == 200, r.status
        allocs[u] = {'resources': {'VCPU': 1, 'MEMORY_MB': 1, 'DISK_GB': 1}}
    body = {'allocations': allocs, 'project_id': 'wide-pj',
            'user_id': 'wide-us', 'consumer_generation': None,
            'consumer_type': 'INSTANCE'}
    r = c.call('PUT', '/allocations/%s' % KW, body)
    assert r.status == 204, (r.status, r.body[:200])
    two = {u: {'resources': {'VCPU': 2, 'MEMORY_MB': 2, 'DISK_GB': 2}}
           for u in allocs}
    half = {u: x for i, (u, x) in enumerate(sorted(two.items())) if i % 2}
    v = '1.39'
    return {
        'DELETE /allocations wide consumer (42 records)': Req(
            'DELETE', '/allocations/%s' % KW, v),
        'PUT /allocations wide consumer cleared': Req(
            'PUT', '/allocations/%s' % KW, v, dict(body, allocations={},
                                                   consumer_generation=1)),
        'PUT /allocations wide consumer rewritten (42 records)': Req(
            'PUT', '/allocations/%s' % KW, v, dict(body, allocations=two,
                                                   consumer_generation=1)),
        'POST /allocations wide consumer halved + a new consumer': Req(
            'POST', '/allocations', v, {
                KW: dict(body, allocations=half, consumer_generation=1),
                world.K3: dict(body, allocations={
                    sorted(allocs)[0]: {'resources': {'VCPU': 1}}})}),
    }


def run_shard(spec, res):
    from pv.histrun import Service
    from pv.sqlwatch import SqlWatch
    svc = Service()
    watch = SqlWatch(svc.app.engine)
    try:
        svc.fresh()
        world.build(svc.client)
        base = svc.app.snapshot(svc.app.db_path + '.world')
        d0 = svc.dump()
        corp = faults.corpus(d0)
        for name, req in corp.items():
            if req['path'].startswith('/reshaper'):
                req['roles'] = 'service'
        names = sorted(corp)
        mine = [n for i, n in enumerate(names)
                if i % spec['of'] == spec['slice']]
        snap_of = {}
        if spec.get('wide'):
            corp = wide_corpus(svc)
            base = svc.app.snapshot(svc.app.db_path + '.wide')
            mine = sorted(corp)
            res.count('wide_corpus_requests', len(mine))
        if spec.get('random'):
            corp, snap_of = faults.random_corpus(svc, spec)
            mine = sorted(corp)
            res.count('random_corpus_requests', len(mine))
        for name in mine:
            base = snap_of.get(name, base)
            svc.app.restore(base)
            d0 = svc.dump()
            v0 = view(d0)
            over0 = overcommitted(d0)
            watch.start()
            r0 = svc.client.send(corp[name])
            events = watch.stop()
            twin = svc.dump()
            if name.startswith('REFUSED') and 400 <= r0.status < 500:
                res.count('refused_requests')
            elif not 200 <= r0.status < 300:
                res.violation('C18|corpus-request-not-accepted|%s' % name,
                              '%s answered %d' % (name, r0.status), {})
                continue
            vt = view(twin)
            res.count('requests')
            points = []
            for k, e in enumerate(events):
                points.append(('before', k))
                if e['kind'] == 'stmt':
                    points.append(('after', k))
            points.append(('before', len(events)))     # = after last event
            tx_of = {}
            for ti, (a, b) in enumerate(faults.transactions(events)):
                for i in range(a, b + 1):
                    tx_of[i] = ti
            states = set()
            for phase, k in points:
                svc.app.restore(base)
                pid = os.fork()
                if pid == 0:
                    # ---- child: run the request, die at the crash point ----
                    try:
                        def hook(ph, ekind, text, params, conn, idx,
                                 phase=phase, k=k):
                            if ph == phase and idx == k:
                                os._exit(77)
                        watch.start(hook)
                        svc.client.send(corp[name], record=False)
                    finally:
                        os._exit(0 if k >= len(events) else 3)
                _, status = os.waitpid(pid, 0)
                code = os.WEXITSTATUS(status) if os.WIFEXITED(status) else -1
                if code == 3:
                    res.count('crash_point_not_reached')
                    continue
                if code not in (77, 0):
                    res.violation('C18|child-died-unexpectedly|%s' % code,
                                  '%s at %s %d' % (name, phase, k), {})
                    continue
                rec = dbdump.take(svc.app.db_path)
                res.count('crash_points')
                wit = {'request': name, 'crash_point': '%s event %d' % (
                    phase, k), 'event': events[k]['sql'][:120]
                    if k < len(events) else 'end of request',
                    'transaction_index': tx_of.get(k)}
                vr = view(rec)
                if vr == v0:
                    cls = 'start'
                    res.count('recovered_equal_start')
                elif vr == vt:
                    cls = 'final'
                    res.count('recovered_equal_final')
                else:
                    cls = 'partial'
                    diff_s = dbdump.diff(d0, rec)[:8]
                    diff_t = dbdump.diff(rec, twin)[:8]
                    res.violation(
                        'C18|neither-wholly-present-nor-absent|%s' % (
                            name.split(' ')[0] + ' ' + name.split(' ')[1]),
                        '%s crashed %s event %d: recovered state is neither '
                        'the start nor the complete effect' % (name, phase,
                                                                k),
                        dict(wit, vs_start=diff_s, vs_final=diff_t))
                # residue kinds (admissible)
                held = {c for (c, _, _) in rec.allocs}
                if set(rec.consumers) - held - (set(d0.consumers) - {
                        c for (c, _, _) in d0.allocs}):
                    res.count('residue_consumer_without_allocations')
                if rec.projects - d0.projects or rec.users - d0.users or \
                        rec.ctypes - d0.ctypes:
                    res.count('residue_project_user_type')
                if set(rec.aggs) - set(d0.aggs) and cls == 'start':
                    res.count('residue_aggregate_record')
                # core invariants on the recovered state
                for kind, detail in monitors.c08_state(rec):
                    if kind == 'allocation-without-consumer':
                        pass
                    res.violation('C18|referential-integrity|%s' % kind,
                                  '%s crashed %s event %d: %s %s' % (
                                      name, phase, k, kind, detail), wit)
                for kind, detail in monitors.forest_problems(rec):
                    res.violation('C18|forest|%s' % kind,
                                  '%s crashed %s event %d: %s %s' % (
                                      name, phase, k, kind, detail), wit)
                new_over = overcommitted(rec) - over0 - overcommitted(twin)
                if new_over:
                    res.violation('C18|capacity|over-committed',
                                  '%s crashed %s event %d: %s over-committed'
                                  % (name, phase, k, sorted(new_over)), wit)
                states.add((tx_of.get(k), cls))
                res.seen(name, tx_of.get(k), cls)
            res.sample({'request': name, 'crash_points': len(points),
                        'recovered_state_classes': sorted(
                            '%s:%s' % s for s in states)}, cap=3)
    finally:
        svc.close()
