"""C02 - every allocation candidate can be claimed exactly as returned."""
import math
from fractions import Fraction

from pv import histrun, refcand
from pv.client import Req
from pv.gen import queries, worlds
from pv.gen.history import mkuuid

META = {
    'level': 'exploration',
    'evaluations': 'entries_claimed',
    'rule': 'generated worlds x queries (as C03) at microversions 1.10-1.39 '
            'with partially used inventories; every returned allocation '
            'request (<=40 per query) is checked structurally against the '
            'parsed query and the dump, its providers against '
            'provider_summaries and the dump, and is then really claimed '
            '(PUT /allocations/{fresh consumer}, same microversion, body '
            'unchanged) on a snapshot of the same state; distinct = (query '
            'feature set, #providers in entry, merged?, sharing?, '
            'microversion band)',
    'floors': {'entries_claimed': 50, 'merged_amount_entries': 5,
               'entries_with_sharing_provider': 5, 'summaries_checked': 50},
    'assumptions': ['SQLite backend', 'bounded scope of C03',
                    'summary capacity accepted as floor of the IEEE or of '
                    'the exact product'],
    'shard_timeout': 3000,
}


def plan(tier, seed, scale):
    n_worlds = int((150 if tier == 'quick' else 2500) * scale)
    per = 10 if tier == 'quick' else 80
    nq = 12 if tier == 'quick' else 20
    shards = []
    i = 0
    k = 0
    while i < n_worlds:
        m = min(per, n_worlds - i)
        shards.append({'seed': seed, 'first': i, 'count': m, 'queries': nq,
                       'hashseed': k % 3, 'tier': tier, 'salt': 'c02'})
        i += m
        k += 1
    return shards


def band(v):
    return ('<1.12' if v < 12 else '1.12-1.27' if v < 28 else
            '1.28-1.33' if v < 34 else '1.34-1.37' if v < 38 else '>=1.38')


def run_shard(spec, res):
    svc = histrun.Service()
    try:
        for i in range(spec['first'], spec['first'] + spec['count']):
            rng = histrun.hist_rng(spec, i)
            svc.fresh()
            w = worlds.build_world(svc.client, rng, rich=rng.random() < 0.7)
            queries.SMALL[0] = True
            d = svc.dump()
            v = refcand.View(d)
            snap = svc.app.snapshot(svc.app.db_path + '.c02')
            res.count('worlds')
            for k in range(spec['queries']):
                if k % 6 == 5 and v.roots:
                    # aimed families (see C03): classes only different trees
                    # offer, identical filters on several groups
                    if k % 12 == 5:
                        q = queries.gen_disjoint_classes_query(rng, w, v)
                        res.count('disjoint_classes_queries')
                    else:
                        q = queries.gen_shared_filter_query(rng, w, v)
                        res.count('shared_filter_queries')
                else:
                    q = queries.gen_ac_query(
                        rng, w, view=v if rng.random() < 0.6 else None)
                ver = q['version']
                path = queries.to_path('/allocation_candidates',
                                       queries.ac_pairs(q, rng))
                resp = svc.client.send(Req('GET', path, '1.%d' % ver))
                if resp.status != 200:
                    if resp.status >= 500:
                        res.violation(
                            'C02|5xx|%s' % ('%s|%s' % resp.escaped
                                            if resp.escaped else '?'),
                            '%s answered %d' % (path, resp.status),
                            {'query': path})
                    continue
                j = resp.json
                res.count('queries')
                feats = queries.features(q)
                total_req = {}
                for g in q['groups'].values():
                    for rc, amt in g['resources'].items():
                        total_req[rc] = total_req.get(rc, 0) + amt
                sums = j['provider_summaries']
                wit0 = {'query': path, 'version': ver, 'world_history': i}
                for ar in j['allocation_requests'][:40]:
                    entry = refcand.from_response(
                        {'allocation_requests': [ar]}, ver)[0]
                    allocs = {(u, rc): amt for (u, rc, amt) in entry[0]}
                    mappings = dict(entry[1])
                    wit = dict(wit0, entry=ar)
                    # ---- structure ------------------------------------
                    bad = None
                    for (u, rc) in allocs:
                        if u not in v.top:
                            bad = 'unknown provider %s' % u
                    per_class = {}
                    for (u, rc), amt in allocs.items():
                        per_class[rc] = per_class.get(rc, 0) + amt
                    if bad is None and per_class != total_req:
                        bad = 'per-class sums %r differ from requested %r' \
                            % (per_class, total_req)
                    if bad is None and ver >= 34:
                        for s, g in q['groups'].items():
                            ps = mappings.get(s)
                            if ps is None:
                                bad = 'no mapping for group %r' % s
                                break
                            if s:
                                if len(ps) != 1:
                                    bad = 'suffixed group %r mapped to %r' \
                                        % (s, ps)
                                    break
                                for rc, amt in g['resources'].items():
                                    if allocs.get((ps[0], rc), 0) < amt:
                                        bad = ('group %r: %s:%d not in full '
                                               'on %s' % (s, rc, amt, ps[0]))
                            else:
                                for rc, amt in g['resources'].items():
                                    holders = [u for u in ps if
                                               allocs.get((u, rc), 0) >= amt]
                                    if not holders:
                                        bad = ('unsuffixed %s:%d on no '
                                               'provider of its mapping %r'
                                               % (rc, amt, ps))
                    if bad:
                        res.violation(
                            'C02|entry-structure|%s' % bad.split(' ')[0],
                            '%s: %s' % (path, bad), wit)
                    # ---- summaries --------------------------------------
                    named = {u for (u, rc) in allocs} | \
                        {u for ps in mappings.values() for u in ps}
                    for u in sorted(named):
                        supplies = any(uu == u for (uu, rc) in allocs)
                        if u not in sums:
                            if supplies:
                                res.violation(
                                    'C02|provider-without-summary',
                                    '%s: %s supplies resources but has no '
                                    'summary' % (path, u), wit)
                            continue
                        if u not in v.top:
                            continue
                        res.count('summaries_checked')
                        ps_ = sums[u]
                        for rc, x in ps_['resources'].items():
                            f = v.inv[u].get(rc)
                            if f is None:
                                res.violation(
                                    'C02|summary-class-without-inventory',
                                    '%s %s/%s' % (path, u, rc), wit)
                                continue
                            base = f['total'] - f['reserved']
                            c1 = int(base * f['allocation_ratio'])
                            c2 = math.floor(base * Fraction(repr(float(
                                f['allocation_ratio']))))
                            if x['capacity'] not in (c1, c2):
                                res.violation(
                                    'C02|summary-capacity-differs',
                                    '%s: %s/%s capacity %r, inventory gives '
                                    '%r' % (path, u, rc, x['capacity'], c1),
                                    wit)
                            if x['used'] != v.used.get((u, rc), 0):
                                res.violation(
                                    'C02|summary-used-differs',
                                    '%s: %s/%s used %r, allocations sum to '
                                    '%r' % (path, u, rc, x['used'],
                                            v.used.get((u, rc), 0)), wit)
                        want_classes = set(v.inv[u]) if ver >= 27 else \
                            set(v.inv[u]) & set(total_req)
                        if set(ps_['resources']) != want_classes:
                            res.violation(
                                'C02|summary-classes-differ',
                                '%s: %s lists %r, expected %r' % (
                                    path, u, sorted(ps_['resources']),
                                    sorted(want_classes)), wit)
                        if ver >= 17 and set(ps_.get('traits', [])) != \
                                v.traits[u]:
                            res.violation(
                                'C02|summary-traits-differ',
                                '%s: %s traits %r, stored %r' % (
                                    path, u, ps_.get('traits'),
                                    sorted(v.traits[u])), wit)
                        if ver >= 29 and (
                                ps_.get('parent_provider_uuid') !=
                                v.parent[u] or
                                ps_.get('root_provider_uuid') != v.top[u]):
                            res.violation(
                                'C02|summary-parent-root-differ',
                                '%s: %s parent/root %r/%r, stored %r/%r' % (
                                    path, u, ps_.get('parent_provider_uuid'),
                                    ps_.get('root_provider_uuid'),
                                    v.parent[u], v.top[u]), wit)
                    # ---- claim --------------------------------------------
                    c = mkuuid(rng)
                    body = {'allocations': ar['allocations'],
                            'project_id': 'claim-pj', 'user_id': 'claim-us'}
                    if 'mappings' in ar:
                        body['mappings'] = ar['mappings']
                    if ver >= 28:
                        body['consumer_generation'] = None
                    if ver >= 38:
                        body['consumer_type'] = 'INSTANCE'
                    r = svc.client.send(Req('PUT', '/allocations/%s' % c,
                                            '1.%d' % ver, body))
                    svc.app.restore(snap)
                    res.count('entries_claimed')
                    merged = any(
                        sum(1 for g in q['groups'].values()
                            if rc in g['resources']) > 1
                        for (u, rc) in allocs)
                    shared = any(u in v.sharing and u in v.top and
                                 len({v.top[x] for (x, _) in allocs}) > 1
                                 for (u, rc) in allocs)
                    if merged:
                        res.count('merged_amount_entries')
                    if shared:
                        res.count('entries_with_sharing_provider')
                    res.seen(','.join(sorted(feats)),
                             len({u for (u, rc) in allocs}),
                             'merged' if merged else '',
                             'sharing' if shared else '', band(ver))
                    if r.status != 204:
                        res.violation(
                            'C02|candidate-not-claimable|%d|%s' % (
                                r.status, 'merged' if merged else 'plain'),
                            '%s: entry %r refused with %d: %s' % (
                                path, ar['allocations'], r.status,
                                r.brief()), wit)
        res.sample({'query': path, 'entries': len(j['allocation_requests'])
                    if resp.status == 200 else None})
    finally:
        svc.close()
