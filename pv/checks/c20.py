"""C20 - limit and randomisation only select from the full candidate set."""
import json
import random as pyrandom

from pv import histrun, refcand
from pv.client import Req
from pv.gen import queries, worlds

META = {
    'level': 'exploration',
    'evaluations': 'limited_queries',
    'rule': 'worlds x queries of the C03 scope with non-empty unlimited '
            'answers (M entries); for every limit N in 1..M+1, both settings '
            'of [placement]randomize_allocation_candidates and several '
            'random.seed values the limited answer must have min(N, M) '
            'distinct entries all of which belong to the unlimited set, with '
            'summaries for every provider named; repeat-determinism with '
            'randomisation off, permutation/subset with it on; distinct = '
            '(query, N class, randomise, seed class)',
    'floors': {'limited_queries': 200, 'randomized_unlimited': 20,
               'repeat_checks': 20, 'limits_below_m': 50},
    'assumptions': ['SQLite backend', 'bounded scope of C03'],
    'shard_timeout': 3000,
}

VERSIONS = [16, 29, 36, 39, 39]


def plan(tier, seed, scale):
    n_worlds = int((100 if tier == 'quick' else 2000) * scale)
    per = 7 if tier == 'quick' else 65
    nq = 8 if tier == 'quick' else 15
    shards = []
    i = k = 0
    while i < n_worlds:
        m = min(per, n_worlds - i)
        shards.append({'seed': seed, 'first': i, 'count': m, 'queries': nq,
                       'hashseed': k % 3, 'tier': tier, 'salt': 'c20'})
        i += m
        k += 1
    return shards


def entries(j, ver):
    return [json.dumps(a, sort_keys=True)
            for a in (j or {}).get('allocation_requests', [])]


def named(ar):
    a = ar['allocations']
    ps = set()
    if isinstance(a, list):
        ps |= {x['resource_provider']['uuid'] for x in a}
    else:
        ps |= set(a)
    for v in ar.get('mappings', {}).values():
        ps |= set(v)
    return ps


def run_shard(spec, res):
    svc = histrun.Service()
    conf = svc.app.conf
    queries.SMALL[0] = True
    try:
        for i in range(spec['first'], spec['first'] + spec['count']):
            rng = histrun.hist_rng(spec, i)
            svc.fresh()
            w = worlds.build_world(svc.client, rng, rich=True)
            res.count('worlds')
            tried = 0
            done = 0
            while done < spec['queries'] and tried < spec['queries'] * 4:
                tried += 1
                q = queries.gen_ac_query(rng, w, rng.choice(VERSIONS))
                ver = q['version']
                pairs = queries.ac_pairs(q, rng)
                base = queries.to_path('/allocation_candidates', pairs)
                conf.set_override('randomize_allocation_candidates', False,
                                  group='placement')
                r0 = svc.client.send(Req('GET', base, '1.%d' % ver))
                if r0.status != 200:
                    continue
                L = entries(r0.json, ver)
                M = len(L)
                if M == 0 and rng.random() < 0.9:
                    continue
                done += 1
                U = set(L)
                wit = {'query': base, 'version': ver, 'M': M,
                       'world_history': i}
                if len(U) != M and ver >= 34:
                    res.violation('C20|unlimited-has-duplicates', base, wit)
                # determinism with randomisation off
                r0b = svc.client.send(Req('GET', base, '1.%d' % ver))
                res.count('repeat_checks')
                if entries(r0b.json, ver) != L:
                    res.violation(
                        'C20|repeat-differs-with-randomisation-off|unlimited',
                        '%s: two identical requests returned different '
                        'ordered lists' % base, wit)
                for rand in (False, True):
                    conf.set_override('randomize_allocation_candidates',
                                      rand, group='placement')
                    seeds = [None] if not rand else \
                        [rng.randrange(10 ** 6) for _ in range(
                            3 if spec['tier'] == 'quick' else 6)]
                    for sd in seeds:
                        if rand:
                            pyrandom.seed(sd)
                            ru = svc.client.send(Req('GET', base,
                                                     '1.%d' % ver))
                            res.count('randomized_unlimited')
                            lu = entries(ru.json, ver)
                            if sorted(lu) != sorted(L):
                                res.violation(
                                    'C20|randomised-unlimited-not-a-'
                                    'permutation',
                                    '%s: %d entries vs %d' % (base, len(lu),
                                                              M),
                                    dict(wit, seed=sd))
                            if lu != L:
                                res.count('randomized_order_differs')
                        limits = list(range(1, M + 2))
                        if len(limits) > 9:
                            limits = sorted(set(
                                [1, 2, M - 1, M, M + 1] +
                                rng.sample(range(3, M - 1), 4)))
                        for N in limits:
                            path = base + '&limit=%d' % N
                            if rand:
                                pyrandom.seed(sd * 1000 + N)
                            r = svc.client.send(Req('GET', path,
                                                    '1.%d' % ver))
                            res.count('limited_queries')
                            if N < M:
                                res.count('limits_below_m')
                            res.seen(queries.q_brief(q)[:80],
                                     'N<M' if N < M else 'N=M' if N == M
                                     else 'N>M', rand,
                                     (sd or 0) % 3)
                            w2 = dict(wit, limit=N, randomize=rand, seed=sd)
                            if r.status != 200:
                                res.violation(
                                    'C20|limited-query-status|%d' % r.status,
                                    '%s answered %d' % (path, r.status), w2)
                                continue
                            ln = entries(r.json, ver)
                            if len(ln) != min(N, M):
                                res.violation(
                                    'C20|limited-length|%s' % (
                                        'random' if rand else 'plain'),
                                    '%s: %d entries, expected min(%d, %d)'
                                    % (path, len(ln), N, M), w2)
                            if not set(ln) <= U:
                                res.violation(
                                    'C20|limited-entry-not-in-unlimited|%s'
                                    % ('random' if rand else 'plain'),
                                    '%s returns an entry the unlimited '
                                    'answer does not contain' % path, w2)
                            if len(set(ln)) != len(ln) and (
                                    ver >= 34 or len(U) == M):
                                res.violation(
                                    'C20|limited-duplicates|%s' % (
                                        'random' if rand else 'plain'),
                                    path, w2)
                            sums = r.json.get('provider_summaries', {})
                            for ar in r.json['allocation_requests']:
                                miss = named(ar) - set(sums)
                                if miss:
                                    res.violation(
                                        'C20|named-provider-without-summary'
                                        '|%s' % ('random' if rand
                                                 else 'plain'),
                                        '%s: no summary for %s' % (
                                            path, sorted(miss)), w2)
                            if not rand:
                                rb = svc.client.send(Req('GET', path,
                                                         '1.%d' % ver))
                                res.count('repeat_checks')
                                if entries(rb.json, ver) != ln:
                                    res.violation(
                                        'C20|repeat-differs-with-'
                                        'randomisation-off|limited',
                                        path, w2)
                                if ln != L[:min(N, M)]:
                                    res.count('limited_not_a_prefix')
        conf.set_override('randomize_allocation_candidates', False,
                          group='placement')
        res.sample({'query': base, 'M': M})
    finally:
        svc.close()
