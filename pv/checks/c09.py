"""C09 - the provider hierarchy is a forest with correct roots."""
from pv import conc, histrun, monitors
from pv.gen.history import HistoryGen, Names

META = {
    'level': 'exploration',
    'evaluations': 'states_checked',
    'rule': 'generated POST/PUT/DELETE /resource_providers histories over 8 '
            'providers at microversions {1.0,1.13,1.14,1.36,1.37,1.39}; one '
            'evaluation = one post-request resource_providers table checked '
            '(cycle, missing parent, root = top of chain) + refusal rule + '
            'reported parent/root and in_tree listings; distinct = canonical '
            'forest shapes reached + (move kind, subtree size) + refusal '
            'kinds'
            ' plus a concurrent part: the C05-C07 scenario catalogue (and provider-tree races) run under the transaction-granularity scheduler, the same oracle evaluated on every committed state / committing step of every explored interleaving',
    'floors': {'concurrent_schedules': 100,
               'moves': 5, 'moves_subtree_ge2_descendants': 1,
               'refusals_due': 5, 'views_checked': 10},
    'assumptions': ['SQLite backend', 'sequential histories + committed-state sequences of '
                    'transaction-level interleavings of request pairs/triples'],
    'shard_timeout': 3000,
}

WEIGHTS = {k: 0 for k in [
    'put_invs', 'post_inv', 'put_inv', 'delete_inv', 'delete_invs',
    'put_trait', 'delete_trait', 'put_rp_traits', 'delete_rp_traits',
    'put_rp_aggs', 'post_rc', 'put_rc', 'delete_rc', 'post_allocs',
    'delete_alloc', 'reshaper']}
WEIGHTS.update({'post_rp': 10, 'put_rp': 14, 'delete_rp': 4,
                'put_alloc': 1, 'put_invs': 1})


CONC = conc.invariant_scenarios(include_tree=True)


def plan(tier, seed, scale):
    shards = histrun.plan_seeds(tier, seed, scale, 400, 8000,
                              25 if tier == 'quick' else 125,
                              extra={'steps': 60 if tier == 'quick' else 80})
    n = max(1, int(len(CONC) * min(scale, 1)))
    for sh in conc.plan_scenarios(n, tier, seed, per=max(1, (n + 7) // 8)):
        sh['conc'] = True
        shards.append(sh)
    return shards


def conc_shard(spec, res):
    def per_state(d, wit):
        for kind, detail in monitors.forest_problems(d):
            res.violation(
                'C09|%s|concurrent|%s' % (kind, wit['scenario']),
                'committed state after step %s of [%s]: %s %s' % (
                    wit['after_step'], wit['transaction_order'], kind,
                    detail), wit)
    conc.run_invariants('C09', CONC, spec, res, per_state=per_state)


def run_shard(spec, res):
    if spec.get('conc'):
        return conc_shard(spec, res)
    svc = histrun.Service()
    try:
        for i in range(spec['first'], spec['first'] + spec['count']):
            rng = histrun.hist_rng(spec, i)
            svc.fresh()
            gen = HistoryGen(rng, Names(rng), WEIGHTS)
            n = [0]

            def views(step, res_, rng=rng, n=n):
                n[0] += 1
                if n[0] % 5 == 0:
                    monitors.c09_views(svc.client, step.after, res_, rng,
                                       rng.choice(['1.14', '1.39']))
            histrun.run_history(svc, gen, spec['steps'], [monitors.c09], res,
                                hist_id=i, after_step=views)
            res.count('histories')
        res.sample({'history': i, 'last_requests': svc.client.history(6)})
    finally:
        svc.close()
