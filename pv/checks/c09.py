"""C09 - the provider hierarchy is a forest with correct roots."""
from pv import conc, histrun, monitors
from pv.gen.history import HistoryGen, Names

META = {
    'level': 'exploration',
    'evaluations': 'states_checked',
    'rule': 'generated POST/PUT/DELETE /resource_providers histories over 8 '
            'providers at microversions {1.0,1.13,1.14,1.36,1.37,1.39}; one '
            'evaluation = one post-request resource_providers table checked '
            '(cycle, missing parent, root = top of chain) + refusal rule + '
            'reported parent/root and in_tree listings; distinct = canonical '
            'forest shapes reached + (move kind, subtree size) + refusal '
            'kinds; plus histories in which half of the writes meet one '
            'injected database fault (DL, DLR, ERR, CONN at a random SQL '
            'event) - the stored hierarchy must stay a forest whatever the '
            'answer'
            ' plus a concurrent part: the C05-C07 scenario catalogue (and provider-tree races) run under the transaction-granularity scheduler, the same oracle evaluated on every committed state / committing step of every explored interleaving',
    'floors': {'concurrent_schedules': 100,
               'faulted_requests': 100, 'moves': 5, 'moves_subtree_ge2_descendants': 1,
               'refusals_due': 5, 'views_checked': 10},
    'assumptions': ['SQLite backend', 'sequential histories + committed-state sequences of '
                    'transaction-level interleavings of request pairs/triples'],
    'shard_timeout': 3000,
}

WEIGHTS = {k: 0 for k in [
    'put_invs', 'post_inv', 'put_inv', 'delete_inv', 'delete_invs',
    'put_trait', 'delete_trait', 'put_rp_traits', 'delete_rp_traits',
    'put_rp_aggs', 'post_rc', 'put_rc', 'delete_rc', 'post_allocs',
    'delete_alloc', 'reshaper']}
WEIGHTS.update({'post_rp': 10, 'put_rp': 14, 'delete_rp': 4,
                'put_alloc': 1, 'put_invs': 1})


CONC = conc.invariant_scenarios(include_tree=True)


def plan(tier, seed, scale):
    shards = histrun.plan_seeds(tier, seed, scale, 400, 8000,
                              25 if tier == 'quick' else 125,
                              extra={'steps': 60 if tier == 'quick' else 80})
    # histories in which tree-changing requests meet a database fault
    nf = int((48 if tier == 'quick' else 1440) * scale)
    per = 6 if tier == 'quick' else 60
    for i in range(0, nf, per):
        shards.append({'seed': seed, 'first': i, 'count': min(per, nf - i),
                       'tier': tier, 'hashseed': (i // per) % 3,
                       'faulted': True, 'steps': 50, 'salt': 'faults'})
    n = max(1, int(len(CONC) * min(scale, 1)))
    for sh in conc.plan_scenarios(n, tier, seed, per=max(1, (n + 7) // 8)):
        sh['conc'] = True
        shards.append(sh)
    return shards


def conc_shard(spec, res):
    def per_state(d, wit):
        for kind, detail in monitors.forest_problems(d):
            res.violation(
                'C09|%s|concurrent|%s' % (kind, wit['scenario']),
                'committed state after step %s of [%s]: %s %s' % (
                    wit['after_step'], wit['transaction_order'], kind,
                    detail), wit)
    conc.run_invariants('C09', CONC, spec, res, per_state=per_state)


def fault_shard(spec, res):
    """the same histories, but half of the writes run with one database
    fault (deadlock with / without rollback by the DBMS, generic error, lost
    connection) injected at a random SQL event; whatever the request
    answers, the stored hierarchy must stay a forest with correct roots"""
    from pv import faults
    from pv.sqlwatch import SqlWatch
    svc = histrun.Service()
    watch = SqlWatch(svc.app.engine)
    try:
        for i in range(spec['first'], spec['first'] + spec['count']):
            rng = histrun.hist_rng(spec, i)
            svc.fresh()
            gen = HistoryGen(rng, Names(rng), WEIGHTS)
            d = svc.dump()
            for _ in range(spec['steps']):
                req = gen.next(d)
                inj = None
                if req['method'] != 'GET' and rng.random() < 0.5 and \
                        len(d.providers) >= 2:
                    inj = faults.Injector(
                        rng.randrange(0, 30),
                        rng.choice(['DL', 'DL', 'DLR', 'ERR', 'CONN']), watch)
                    watch.start(inj)
                try:
                    resp = svc.client.send(req)
                finally:
                    if inj is not None:
                        watch.stop()
                d = svc.dump()
                res.count('states_checked')
                if inj is not None and inj.fired:
                    res.count('faulted_requests')
                    res.seen('fault', req['method'], inj.kind,
                             resp.status // 100)
                    if 200 <= resp.status < 300:
                        res.count('faulted_requests_answered_2xx')
                for kind, detail in monitors.forest_problems(d):
                    res.violation(
                        'C09|%s|%s|%s' % (
                            kind, 'after-fault-' + inj.kind
                            if inj is not None and inj.fired else 'history',
                            '%s %s' % (req['method'],
                                       req['path'].split('/')[1])),
                        '%s %s -> %d: %s %s' % (req['method'], req['path'],
                                                resp.status, kind, detail),
                        {'history': svc.client.history(12),
                         'fault': [inj.k, inj.kind] if inj is not None and
                         inj.fired else None})
                    break
            res.count('histories')
    finally:
        svc.close()


def run_shard(spec, res):
    if spec.get('conc'):
        return conc_shard(spec, res)
    if spec.get('faulted'):
        return fault_shard(spec, res)
    svc = histrun.Service()
    try:
        for i in range(spec['first'], spec['first'] + spec['count']):
            rng = histrun.hist_rng(spec, i)
            svc.fresh()
            gen = HistoryGen(rng, Names(rng), WEIGHTS)
            n = [0]

            def views(step, res_, rng=rng, n=n):
                n[0] += 1
                if n[0] % 5 == 0:
                    monitors.c09_views(svc.client, step.after, res_, rng,
                                       rng.choice(['1.14', '1.39']))
            histrun.run_history(svc, gen, spec['steps'], [monitors.c09], res,
                                hist_id=i, after_step=views)
            res.count('histories')
        res.sample({'history': i, 'last_requests': svc.client.history(6)})
    finally:
        svc.close()
