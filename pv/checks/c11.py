"""C11 - reads report exactly the state produced by the successful writes."""
from pv import histrun, model as mdl
from pv.client import Req
from pv.gen.history import HistoryGen, Names
from pv.routes import classify, vnum

META = {
    'level': 'exploration',
    'evaluations': 'responses_compared',
    'rule': 'generated histories over all routes (valid and invalid '
            'arguments, microversions 1.0-1.39) with reads after every write '
            'and full read sweeps; every response is compared with an '
            'executable reference model of the API contract written from '
            'the api-ref (admissible status set, body of reads and of '
            'writes that return one) and after every request the model '
            'state is compared with the table dump; distinct = (route, '
            'status, microversion band)',
    'floors': {'responses_compared': 2000, 'reads_compared': 500,
               'state_comparisons': 2000, 'accepted_writes_applied': 300},
    'assumptions': ['SQLite backend', 'sequential requests',
                    'generation numbers are opaque: taken from the table '
                    'dump', 'where the api-ref does not order two error '
                    'conditions both statuses are admissible'],
    'shard_timeout': 3000,
}

WEIGHTS = {'read': 0}
BANDS = [(0, '1.0'), (8, '1.8-'), (12, '1.12-'), (19, '1.19-'),
         (28, '1.28-'), (38, '1.38-')]


def band(v):
    b = '1.0'
    for lo, name in BANDS:
        if v >= lo:
            b = name
    return b


def plan(tier, seed, scale):
    return histrun.plan_seeds(tier, seed, scale, 300, 6000,
                              19 if tier == 'quick' else 100,
                              extra={'steps': 80 if tier == 'quick' else 120})


def reads_for(rng, d, names, sweep):
    rps = sorted(d.providers)
    out = []
    vs = ['1.0', '1.11', '1.12', '1.14', '1.19', '1.27', '1.28', '1.37',
          '1.38', '1.39']
    u = rng.choice(rps) if rps else names.unknown_uuid
    cands = []
    for p in (rps if sweep else [u]):
        cands += ['/resource_providers/%s' % p,
                  '/resource_providers/%s/inventories' % p,
                  '/resource_providers/%s/usages' % p,
                  '/resource_providers/%s/traits' % p,
                  '/resource_providers/%s/aggregates' % p,
                  '/resource_providers/%s/allocations' % p]
        for (pp, rc) in d.inventories:
            if pp == p and (sweep or rng.random() < 0.3):
                cands.append('/resource_providers/%s/inventories/%s'
                             % (p, rc))
    allc = names.consumers + names.upper_consumers
    for c in (allc if sweep else [rng.choice(allc)]):
        cands.append('/allocations/%s' % c)
    cands += ['/resource_providers', '/traits', '/resource_classes',
              '/traits?associated=%s' % rng.choice(['true', 'false',
                                                    'TRUE', 'maybe']),
              '/traits?name=startswith:%s' % rng.choice(
                  ['CUSTOM_', 'CUSTOM_T', 'HW_CPU_X86_A', 'MISC', '',
                   # characters that mean something to SQL LIKE
                   'CUSTOM_T_', 'CUSTOM%25', 'HW_CPU_X86_AV_', '_', '%25',
                   'CUSTOM_UNUSE_']),
              '/traits?name=in:%s' % ','.join(rng.sample(
                  ['CUSTOM_T1', 'CUSTOM_T2', 'CUSTOM_T3', 'HW_CPU_X86_AVX',
                   'CUSTOM_NOPE'], 2)),
              '/traits?name=startswith:CUSTOM&associated=true']
    for pj in (sorted(d.projects)[:3] if sweep else
               sorted(d.projects)[:1]):
        cands.append('/usages?project_id=%s' % pj)
        if d.users:
            cands.append('/usages?project_id=%s&user_id=%s' % (
                pj, rng.choice(sorted(d.users))))
        cands.append('/usages?project_id=%s&consumer_type=%s' % (
            pj, rng.choice(['all', 'unknown', 'INSTANCE', 'MIGRATION',
                            'CT_X', 'NOPE_TYPE', 'allzzz', 'unknown%0A',
                            'all%0A', 'instance', 'ALL', 'unknownx', ''])))
    if rps:
        cands.append('/resource_providers?in_tree=%s' % u)
    if not sweep:
        cands = rng.sample(cands, min(3, len(cands)))
    for path in cands:
        out.append(Req('GET', path, rng.choice(vs), tag={'op': 'read'}))
    return out


def run_shard(spec, res):
    import random
    import os_resource_classes as orc
    import os_traits
    crng = random.Random('conf11/%s/%s' % (spec['seed'], spec['first']))
    pp = 'incomplete-pj-%d' % crng.randrange(1000)
    pu = 'incomplete-us-%d' % crng.randrange(1000)
    svc = histrun.Service(conf_overrides={
        ('placement', 'incomplete_consumer_project_id'): pp,
        ('placement', 'incomplete_consumer_user_id'): pu})
    std_t = list(os_traits.get_traits())
    std_c = list(orc.STANDARDS)
    try:
        for i in range(spec['first'], spec['first'] + spec['count']):
            rng = histrun.hist_rng(spec, i)
            svc.fresh()
            names = Names(rng)
            gen = HistoryGen(rng, names, WEIGHTS)
            model = mdl.Model(std_t, std_c, pp, pu)
            d = svc.dump()
            queue = []
            step = 0
            while step < spec['steps']:
                if queue:
                    req = queue.pop(0)
                else:
                    req = gen.next(d)
                    step += 1
                    if req['method'] != 'GET':
                        queue = reads_for(rng, d, names,
                                          sweep=(step % 10 == 0))
                mdl.observe(model, d)
                verdict = model.judge(req)
                resp = svc.client.send(req)
                d2 = svc.dump() if req['method'] != 'GET' else d
                route = classify(req['path'])[0]
                rn = '%s %s' % (req['method'], route)
                v = vnum(req['version'])
                st = resp.status
                wit = {'request': req.brief(), 'response': resp.brief(),
                       'history': {'hist_id': i,
                                   'requests': svc.client.history(30)}}
                if verdict is None:
                    res.count('unmodelled_requests')
                    d = d2
                    continue
                res.count('responses_compared')
                if req['method'] == 'GET':
                    res.count('reads_compared')
                res.seen(rn, st, band(v))
                if st not in verdict.statuses:
                    res.violation(
                        'C11|status|%s|got %d|expected %s' % (
                            rn, st, '/'.join(map(str, sorted(
                                verdict.statuses)))),
                        '%s answered %d, the contract admits %s in this '
                        'state %s' % (rn, st, sorted(verdict.statuses),
                                      verdict.why),
                        wit)
                if 200 <= st < 300:
                    if verdict.apply is not None and (
                            st in verdict.statuses or True):
                        try:
                            verdict.apply(model.s)
                            res.count('accepted_writes_applied')
                        except Exception as exc:
                            res.count('model_apply_errors')
                            mdl.adopt(model, d2)
                    if verdict.body is not None and st in verdict.statuses:
                        try:
                            probs = verdict.body(resp.json, d2)
                        except Exception as exc:   # malformed body
                            probs = ['body not in the documented shape: %r'
                                     % exc]
                        if probs:
                            res.violation(
                                'C11|body|%s|%s' % (rn, probs[0].split(
                                    ' ')[0]),
                                '%s at %s: %s' % (rn, req['version'],
                                                  probs[:3]),
                                dict(wit, body=(resp.body or b'')[:600]
                                     .decode('utf-8', 'replace')))
                if req['method'] != 'GET':
                    res.count('state_comparisons')
                    probs = model.compare_with_dump(d2)
                    if probs:
                        res.violation(
                            'C11|state-differs-from-model|%s|%d|%s' % (
                                rn, st, probs[0].split(' ')[0]),
                            'after %s (%d): %s' % (rn, st, probs[:3]), wit)
                        mdl.adopt(model, d2)
                d = d2
            res.count('histories')
        res.sample({'history': i, 'last': svc.client.history(4)})
    finally:
        svc.close()
