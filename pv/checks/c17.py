"""C17 - database faults end in an exactly-once retry or a clean failure."""
import sqlite3

from pv import dbdump, faults, world
from pv.sqlwatch import kind_of

META = {
    'level': 'fault_enumeration',
    'exhaustive': True,
    'evaluations': 'injections',
    'rule': 'corpus = one representative request per write route and shape '
            '(+ start-up synchronisation from an empty and a partial '
            'database); for EVERY event index k of the fault-free SQL trace '
            '(statements, BEGIN, COMMIT) one injection of each applicable '
            'kind: DL (deadlock, transaction intact), DLR (deadlock, '
            'transaction rolled back by the DBMS as InnoDB does), DUP '
            '(unique violation on an INSERT), ERR (generic driver error), '
            'CONN (connection lost); outcome judged against the fault-free '
            'twin run: (i) 2xx and final tables equal to the twin\'s, or '
            '(ii) well-formed JSON error and tables equal to the start; in '
            'the required-retry zones only (i); plus pairs of faults in one '
            'request (80 per request, thorough 1500); distinct = (request, '
            'statement kind, fault kind, '
            'outcome class)',
    'floors': {'injections': 500, 'required_retry_injections': 20,
               'requests': 10},
    'assumptions': ['SQLite backend; DBMS-specific deadlock behaviour is '
                    'emulated (DLR = ROLLBACK; BEGIN on the raw connection '
                    'before raising DBDeadlock)',
                    'oslo_db retry sleeps replaced by no-ops (virtual time)',
                    'one or two faults per run'],
    'shard_timeout': 3000,
}

STARTUP = ['startup sync from empty database',
           'startup sync from partial database']


def plan(tier, seed, scale):
    shards = []
    n = 16
    for i in range(n):
        shards.append({'seed': seed, 'slice': i, 'of': n, 'tier': tier,
                       'hashseed': 0, 'pairs': False})
    # pairs of faults in one request: a sample in the quick tier
    for i in range(n):
        shards.append({'seed': seed, 'slice': i, 'of': n, 'tier': tier,
                       'hashseed': 0, 'pairs': True,
                       'pairs_max': 1500 if tier == 'thorough' else 80})
    # accepted write requests drawn from random histories on random states
    n_rand = int((16 if tier == 'quick' else 480) * scale)
    per = 2 if tier == 'quick' else 30
    for i in range(0, n_rand, per):
        shards.append({'seed': seed, 'slice': 0, 'of': 1, 'tier': tier,
                       'hashseed': (i // per) % 3, 'pairs': False,
                       'random': True, 'first': i,
                       'count': min(per, n_rand - i)})
    return shards


def run_shard(spec, res):
    import random
    from pv import use_repo
    use_repo()
    import oslo_db.api
    oslo_db.api.time.sleep = lambda s: None
    from pv.histrun import Service
    from pv.sqlwatch import SqlWatch
    svc = Service()
    watch = SqlWatch(svc.app.engine)
    rng = random.Random('c17/%s/%s' % (spec['seed'], spec['slice']))
    try:
        svc.fresh()
        world.build(svc.client)
        base = svc.app.snapshot(svc.app.db_path + '.world')
        d0 = svc.dump()
        corp = faults.corpus(d0)
        for name, req in corp.items():
            if req['path'].startswith('/reshaper'):
                req['roles'] = 'service'
        names = sorted(corp) + STARTUP
        mine = [n for i, n in enumerate(names)
                if i % spec['of'] == spec['slice']]
        snap_of = {}
        if spec.get('random'):
            corp, snap_of = faults.random_corpus(svc, spec)
            mine = sorted(corp)
            res.count('random_corpus_requests', len(mine))

        def prepare(name):
            """restore the start state for the named case -> start dump"""
            svc.app.restore(snap_of.get(name, base))
            if name in STARTUP:
                con = sqlite3.connect(svc.app.db_path)
                import os_traits
                import os_resource_classes as orc
                used_t = {t for (_, t) in d0.rp_traits}
                used_c = {c for (_, c) in d0.inventories}
                std_t = [t for t in os_traits.get_traits()
                         if t not in used_t]
                std_c = [c for c in orc.STANDARDS if c not in used_c]
                if 'empty' in name:
                    dt, dc = std_t, std_c
                else:
                    r2 = random.Random(7)
                    dt = r2.sample(std_t, len(std_t) // 2)
                    dc = r2.sample(std_c, len(std_c) // 2)
                con.executemany('DELETE FROM traits WHERE name = ?',
                                [(t,) for t in dt])
                con.executemany('DELETE FROM resource_classes WHERE name = ?',
                                [(c,) for c in dc])
                con.commit()
                con.close()
            return dbdump.take(svc.app.db_path)

        def execute(name, hook):
            """-> (status or 'ok'/'exc:<Type>', response or None, events)"""
            watch.start(hook)
            try:
                if name in STARTUP:
                    try:
                        svc.app.restart()
                        out = ('ok', None)
                    except Exception as exc:
                        out = ('exc:%s' % type(exc).__name__, None)
                else:
                    r = svc.client.send(corp[name])
                    out = (r.status, r)
            finally:
                events = watch.stop()
            return out[0], out[1], events

        for name in mine:
            start = prepare(name)
            st0, r0, events = execute(name, None)
            twin = dbdump.take(svc.app.db_path)
            if name in STARTUP:
                assert st0 == 'ok', st0
            elif name.startswith('REFUSED'):
                # a request refused for an ordinary reason: with a fault it
                # must still be an error that leaves nothing behind
                if not 400 <= st0 < 500 or dbdump.diff(start, twin):
                    res.violation('C17|refused-corpus-request|%s' % name,
                                  'fault-free %s answered %s / changed the '
                                  'state' % (name, st0), {})
                    continue
                res.count('refused_requests')
            elif not 200 <= st0 < 300:
                res.violation('C17|corpus-request-not-accepted|%s' % name,
                              'fault-free %s answered %s: %s' % (
                                  name, st0, r0.brief()), {})
                continue
            res.count('requests')
            n_ev = len(events)
            zone = faults.retry_zone(events)
            aggfirst = faults.aggregate_first_insert(events)
            sync_zone = set(range(n_ev)) if name in STARTUP else set()
            res.count('events_in_fault_free_traces', n_ev)
            jobs = []
            for k in range(n_ev):
                for kind in faults.KINDS:
                    if faults.applicable(kind, events[k]['kind'],
                                         events[k]['sql']):
                        jobs.append(((k, kind),))
            if spec['pairs']:
                if not any(x in name for x in ('/allocations', 'aggregates',
                                               '/reshaper')):
                    continue
                pairs = []
                for k1 in range(n_ev):
                    if events[k1]['kind'] == 'rollback':
                        continue
                    for k2 in range(k1 + 1, n_ev + 6):
                        pairs.append(((k1, rng.choice(['DL', 'DLR', 'ERR'])),
                                      (k2, rng.choice(['DL', 'DLR', 'ERR']))))
                rng.shuffle(pairs)
                jobs = pairs[:spec.get('pairs_max', 1500)]
            for job in jobs:
                prepare(name)
                injs = [faults.Injector(k, kind, watch) for k, kind in job]

                def hook(*a, injs=injs):
                    for inj in injs:
                        inj(*a)
                st, r, ev2 = execute(name, hook)
                if not injs[0].fired:
                    res.count('injections_not_reached')
                    continue
                after = dbdump.take(svc.app.db_path)
                res.count('injections')
                k, kind = job[0]
                k = min(injs[0].k, n_ev - 1)     # (deferred to an applicable event)
                skind = kind_of(events[k]['sql']) \
                    if events[k]['kind'] == 'stmt' else events[k]['kind']
                is_alloc_write = name.startswith((
                    'PUT /allocations', 'POST /allocations',
                    'POST /reshaper'))
                required = (kind in ('DL', 'DLR') and (
                    (k in zone and is_alloc_write) or (
                        k in sync_zone and events[k]['kind'] == 'stmt'))) \
                    or (kind == 'DUP' and k in aggfirst)
                if len(job) > 1:
                    required = False
                if required:
                    res.count('required_retry_injections')
                ok2 = (st == 'ok') if name in STARTUP else \
                    (isinstance(st, int) and 200 <= st < 300)
                # generation *numbers* are opaque: a retried attempt may
                # bump twice; what must agree is where they changed
                def gen_changed(x):
                    return ({u for u, p in x.providers.items()
                             if u in start.providers and p['generation'] !=
                             start.providers[u]['generation']},
                            {c for c, p in x.consumers.items()
                             if c in start.consumers and p['generation'] !=
                             start.consumers[c]['generation']})
                same_as_twin = not dbdump.diff(after, twin, with_gen=False) \
                    and gen_changed(after) == gen_changed(twin)
                same_as_start = not dbdump.diff(after, start, with_gen=True)
                if name in STARTUP:
                    same_as_twin = same_as_twin and \
                        after.raw['traits'] == twin.raw['traits'] and \
                        after.raw['resource_classes'] == \
                        twin.raw['resource_classes']
                    # the two tables are synchronised in two transactions:
                    # after a failure each is either as at the start or
                    # completely synchronised
                    def names(x, t):
                        return sorted(r_['name'] for r_ in x.raw[t])
                    ca, cs = after.core(), start.core()
                    for t in ('traits', 'classes'):
                        ca.pop(t), cs.pop(t)
                    same_as_start = ca == cs and all(
                        names(after, t) in (names(start, t), names(twin, t))
                        for t in ('traits', 'resource_classes'))
                wellformed = True
                if not ok2 and name not in STARTUP:
                    j = r.json
                    wellformed = isinstance(j, dict) and 'errors' in j and \
                        isinstance(j['errors'], list) and j['errors'] and \
                        j['errors'][0].get('status') == st
                if ok2 and same_as_twin:
                    outcome = 'applied-once'
                elif not ok2 and same_as_start and wellformed:
                    outcome = 'clean-failure'
                elif ok2 and same_as_start:
                    outcome = 'success-but-effect-lost'
                elif ok2:
                    outcome = 'success-but-partial-or-double-effect'
                elif not wellformed:
                    outcome = 'malformed-error-response'
                elif same_as_twin:
                    outcome = 'error-but-effect-applied'
                else:
                    outcome = 'error-with-residue'
                res.seen(name, skind, '+'.join(kd for _, kd in job), outcome)
                res.count('outcome_' + outcome)
                n_retried = max(0, len([e for e in ev2
                                        if e['kind'] == 'stmt']) -
                                len([e for e in events
                                     if e['kind'] == 'stmt']))
                if outcome == 'applied-once' and n_retried:
                    res.count('statements_re_executed', n_retried)
                wit = {'request': name, 'event_index': k,
                       'event': events[k]['sql'][:160],
                       'faults': [list(x) for x in job],
                       'status': st,
                       'response': r.brief() if r is not None else None,
                       'required_retry_zone': required,
                       'diff_vs_twin': dbdump.diff(after, twin)[:8],
                       'diff_vs_start': dbdump.diff(start, after)[:8]}
                tx = 'in-alloc-write-step' if k in zone else (
                    'startup' if name in STARTUP else 'elsewhere')
                rname = name[8:] if name.startswith('REFUSED ') else name
                where = '%s|%s|%s' % (rname.split(' ')[0] + ' ' + (
                    rname.split(' ')[1] if ' ' in rname else ''), skind, tx)
                if kind == 'DUP' and not required and len(job) == 1 and \
                        outcome.startswith('success-but'):
                    # An injected duplicate-key error where no racing row
                    # exists: code that (rightly) treats the error as "a
                    # racing request has created it" reports success. Only
                    # the aggregate case is specified by the property.
                    res.count('dup_treated_as_raced')
                    continue
                if name in STARTUP and kind == 'DUP' and st == 'ok' and \
                        same_as_start:
                    res.count('dup_treated_as_raced')
                    continue
                if outcome in ('applied-once', 'clean-failure'):
                    if required and outcome != 'applied-once':
                        res.violation(
                            'C17|not-retried|%s|%s' % (kind, where),
                            '%s: %s at event %d (%s) must be retried, got '
                            '%s (%s)' % (name, kind, k, skind, st, outcome),
                            wit)
                    continue
                if outcome == 'error-with-residue' and (
                        (len(job) > 1 and injs[1].fired) or
                        name.startswith('REFUSED')):
                    # two faults in one request: is the residue nothing but
                    # consumer records this request auto-created (they hold
                    # no allocations), i.e. the second fault hit the removal
                    # of what the first one made superfluous?  (D24)
                    ca, cs = after.core(), start.core()
                    extra = set(ca['consumers']) - set(cs['consumers'])
                    held = {cc for (cc, _, _) in after.allocs}
                    for cc in extra:
                        ca['consumers'].pop(cc)
                    if extra and not (extra & held) and ca == cs:
                        outcome = 'auto-created-consumer-left-after-' + (
                            'second-fault' if len(job) > 1 else
                            'fault-in-refused-request')
                        where = where.split('|')[0]
                res.violation(
                    'C17|%s|%s|%s' % (outcome, '+'.join(kd for _, kd in job),
                                      where),
                    '%s: %s at event %d (%s): status %s, %s' % (
                        name, job, k, skind, st, outcome), wit)
            res.sample({'request': name, 'events': n_ev,
                        'required_retry_indices': sorted(zone)[:40],
                        'trace': [kind_of(e['sql']) if e['kind'] == 'stmt'
                                  else e['kind'] for e in events][:60]},
                       cap=2)
    finally:
        svc.close()
