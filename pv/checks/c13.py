"""C13 - provider listing filters select exactly the matching providers."""
from urllib.parse import quote

from pv import histrun, refcand
from pv.client import Req
from pv.gen import worlds
from pv.gen.history import mkuuid

META = {
    'level': 'exploration',
    'evaluations': 'queries_compared',
    'rule': 'generated worlds (scope of C03) x random conjunctions of the '
            'filters name, uuid, in_tree, member_of (repeated, in:, !, '
            '!in:), required (repeated, in:, !) and resources at '
            'microversions {1.0,1.3,1.4,1.14,1.18,1.22,1.24,1.32,1.39}; the '
            'listed uuids are compared with the statement\'s predicate '
            'evaluated on the table dump (two-sided only on IEEE rounding '
            'boundaries); unknown trait/class -> 400, unknown '
            'in_tree/uuid/aggregates -> empty list; distinct = '
            'filter-subset signatures with a result that is neither empty '
            'nor everything',
    'floors': {'queries_compared': 500, 'nontrivial_results': 100,
               'status_400_checks': 10, 'empty_by_unknown_checks': 10},
    'assumptions': ['SQLite backend', 'bounded scope of C03'],
    'shard_timeout': 3000,
}

VERSIONS = [0, 3, 4, 14, 18, 22, 24, 32, 39, 39, 39]
TRAITS = worlds.TRAITS


def plan(tier, seed, scale):
    n_worlds = int((200 if tier == 'quick' else 4000) * scale)
    per = 13 if tier == 'quick' else 125
    nq = 40 if tier == 'quick' else 60
    shards = []
    i = k = 0
    while i < n_worlds:
        m = min(per, n_worlds - i)
        shards.append({'seed': seed, 'first': i, 'count': m, 'queries': nq,
                       'hashseed': k % 3, 'tier': tier, 'salt': 'c13'})
        i += m
        k += 1
    return shards


def gen_query(rng, w, v_, d):
    ver = rng.choice(VERSIONS)
    f = {'version': ver, 'name': None, 'uuid': None, 'in_tree': None,
         'member_of': [], 'forbidden_aggs': set(), 'required': [],
         'forbidden': set(), 'resources': {}, 'dup': None, 'expect': 200}
    unknown_uuid = mkuuid(rng)
    rps = v_.rps
    if rng.random() < 0.12:
        f['name'] = d.providers[rng.choice(rps)]['name'] \
            if rng.random() < 0.75 else rng.choice(['nope', '', 'p%', 'p_'])
    if rng.random() < 0.12:
        f['uuid'] = rng.choice(rps) if rng.random() < 0.8 else unknown_uuid
    if ver >= 14 and rng.random() < 0.3:
        f['in_tree'] = rng.choice(rps) if rng.random() < 0.85 \
            else unknown_uuid
    if ver >= 3 and rng.random() < 0.5:
        n = rng.choice([1, 1, 2]) if ver >= 24 else 1
        pool = w.aggs + [unknown_uuid]
        for _ in range(n):
            if rng.random() < 0.45:
                f['member_of'].append(set(rng.sample(pool, 2)))
            else:
                f['member_of'].append({rng.choice(pool)})
        if ver >= 32 and rng.random() < 0.4:
            f['forbidden_aggs'] = set(rng.sample(pool, rng.choice([1, 2])))
    elif ver >= 32 and rng.random() < 0.2:
        f['forbidden_aggs'] = set(rng.sample(w.aggs, rng.choice([1, 2])))
    f['split_forbidden'] = rng.random() < 0.5
    if ver >= 18 and rng.random() < 0.5:
        pool = list(TRAITS)
        if rng.random() < 0.08:
            pool = pool + ['CUSTOM_UNKNOWN_TRAIT']
        if ver >= 39:
            for _ in range(rng.choice([1, 1, 2])):
                if rng.random() < 0.4:
                    f['required'].append(set(rng.sample(pool, 2)))
                else:
                    f['required'].append({rng.choice(pool)})
        else:
            for t in rng.sample(pool, rng.choice([1, 1, 2])):
                f['required'].append({t})
        if ver >= 22 and rng.random() < 0.4:
            c = [t for t in pool if not any(s == {t} for s in f['required'])]
            if c:
                f['forbidden'].add(rng.choice(c))
        if f['forbidden'] and rng.random() < 0.35:
            f['required'] = []          # forbidden traits on their own
        f['required'] = [s for s in f['required']
                         if not s <= f['forbidden']]
    if ver >= 4 and rng.random() < 0.5:
        pool = list(w.classes)
        if rng.random() < 0.06:
            pool = pool + ['CUSTOM_UNKNOWN_CLASS']
        for c in rng.sample(pool, rng.choice([1, 1, 2])):
            f['resources'][c] = rng.choice([1, 1, 2, 3, 4, 8, 16])
        known = sorted(c for c in f['resources'] if c in w.classes)
        if known and rng.random() < 0.08:
            # one class named twice with two amounts: "for each resources
            # entry ... room for the amount" - or the request is refused
            f['dup'] = (rng.choice(known), rng.choice([1, 2, 4, 16, 64, 512]))
    return f


def to_path(f, rng):
    pairs = []
    if f['name'] is not None:
        pairs.append(('name', f['name']))
    if f['uuid'] is not None:
        pairs.append(('uuid', f['uuid']))
    if f['in_tree'] is not None:
        pairs.append(('in_tree', f['in_tree']))
    for t in f['member_of']:
        pairs.append(('member_of', next(iter(t)) if len(t) == 1
                      else 'in:' + ','.join(sorted(t))))
    fa = sorted(f['forbidden_aggs'])
    if len(fa) == 1:
        pairs.append(('member_of', '!' + fa[0]))
    elif fa and f.get('split_forbidden'):
        # (repeated negative values: one parameter per aggregate)
        for a in fa:
            pairs.append(('member_of', '!' + a))
    elif fa:
        pairs.append(('member_of', '!in:' + ','.join(fa)))
    singles = [next(iter(t)) for t in f['required'] if len(t) == 1]
    multis = [t for t in f['required'] if len(t) > 1]
    forb = ['!' + t for t in sorted(f['forbidden'])]
    if singles or forb:
        pairs.append(('required', ','.join(singles + forb)))
    for t in multis:
        pairs.append(('required', 'in:' + ','.join(sorted(t))))
    if f['resources']:
        items = list(f['resources'].items())
        if f['dup']:
            items.insert(rng.randrange(len(items) + 1), f['dup'])
        pairs.append(('resources', ','.join('%s:%d' % kv for kv in items)))
    rng.shuffle(pairs)
    return '/resource_providers' + ('?' + '&'.join(
        '%s=%s' % (k, quote(v, safe=':,!')) for k, v in pairs)
        if pairs else '')


def reference(v, d, f, mode):
    out = set()
    for u in v.rps:
        if f['name'] is not None and d.providers[u]['name'] != f['name']:
            continue
        if f['uuid'] is not None and u != f['uuid']:
            continue
        if f['in_tree'] is not None:
            if f['in_tree'] not in v.top or \
                    v.top[u] != v.top[f['in_tree']]:
                continue
        if not all(t & v.aggs[u] for t in f['member_of']):
            continue
        if f['forbidden_aggs'] & v.aggs[u]:
            continue
        if not all(t & v.traits[u] for t in f['required']):
            continue
        if f['forbidden'] & v.traits[u]:
            continue
        if not all(v.room(u, rc, amt, mode)
                   for rc, amt in f['resources'].items()):
            continue
        if f['dup'] and not v.room(u, f['dup'][0], f['dup'][1], mode):
            continue
        out.add(u)
    return out


def signature(f):
    s = []
    for k in ('name', 'uuid', 'in_tree'):
        if f[k] is not None:
            s.append(k)
    if f['member_of']:
        s.append('member_of%d%s' % (len(f['member_of']), 'in' if any(
            len(t) > 1 for t in f['member_of']) else ''))
    if f['forbidden_aggs']:
        s.append('!agg')
    if f['required']:
        s.append('required%d%s' % (len(f['required']), 'in' if any(
            len(t) > 1 for t in f['required']) else ''))
    if f['forbidden']:
        s.append('!trait')
    if f['resources']:
        s.append('resources%d' % len(f['resources']))
    if f['dup']:
        s.append('class-twice')
    return '+'.join(s) or 'none'


def run_shard(spec, res):
    svc = histrun.Service()
    try:
        for i in range(spec['first'], spec['first'] + spec['count']):
            rng = histrun.hist_rng(spec, i)
            svc.fresh()
            w = worlds.build_world(svc.client, rng)
            d = svc.dump()
            v = refcand.View(d)
            res.count('worlds')
            for k in range(spec['queries']):
                f = gen_query(rng, w, v, d)
                path = to_path(f, rng)
                r = svc.client.send(Req('GET', path, '1.%d' % f['version']))
                wit = {'query': path, 'version': f['version'],
                       'world_history': i, 'response': r.brief()}
                unknown_trait = any(
                    t not in d.traits
                    for s in f['required'] for t in s) or any(
                    t not in d.traits for t in f['forbidden'])
                unknown_class = any(c not in d.classes
                                    for c in f['resources'])
                if unknown_trait or unknown_class:
                    res.count('status_400_checks')
                    # other filters may already have emptied the result
                    # before the unknown name is looked at: 400, or 200 []
                    g = dict(f)
                    g['required'] = [t for t in f['required']
                                     if all(x in d.traits for x in t)]
                    g['forbidden'] = {t for t in f['forbidden']
                                      if t in d.traits}
                    g['resources'] = {c: a for c, a in f['resources'].items()
                                      if c in d.classes}
                    rest_empty = not reference(v, d, g, 'may')
                    if r.status == 400:
                        pass
                    elif r.status == 200 and rest_empty and not r.json[
                            'resource_providers']:
                        # the other filters already select nothing: an empty
                        # list is as admissible as the 400
                        res.count('unknown_name_short_circuited')
                    else:
                        res.violation(
                            'C13|unknown-%s-not-400' % (
                                'trait' if unknown_trait else 'class'),
                            '%s answered %d' % (path, r.status), wit)
                    continue
                if f['dup'] and r.status == 400:
                    res.count('repeated_class_refused')
                    continue
                if r.status != 200:
                    res.violation('C13|valid-query-rejected|%d' % r.status,
                                  '%s answered %d' % (path, r.status), wit)
                    continue
                got_list = [x['uuid'] for x in r.json['resource_providers']]
                got = set(got_list)
                must = reference(v, d, f, 'must')
                may = reference(v, d, f, 'may')
                res.count('queries_compared')
                if len(got_list) != len(got):
                    res.violation('C13|duplicate-provider', path, wit)
                if (f['in_tree'] is not None and f['in_tree'] not in v.top) \
                        or (f['uuid'] is not None and f['uuid'] not in v.top)\
                        or any(not (t & set(d.aggs))
                               for t in f['member_of']):
                    res.count('empty_by_unknown_checks')
                if must and len(must) < len(v.rps):
                    res.count('nontrivial_results')
                    res.seen(signature(f))
                if must - got:
                    res.violation(
                        'C13|omission|%s' % signature(f),
                        '%s omits %s' % (path, sorted(must - got)),
                        dict(wit, expected=sorted(must), got=sorted(got)))
                if got - may:
                    res.violation(
                        'C13|spurious|%s' % signature(f),
                        '%s lists %s which do not satisfy the filters'
                        % (path, sorted(got - may)),
                        dict(wit, expected=sorted(may), got=sorted(got)))
        res.sample({'query': path, 'listed': len(got)})
    finally:
        svc.close()
