"""Raw WSGI invocation (no webob on the client side) so that the response is
observed exactly as a server would receive it: status line, header list,
exc_info, body iterable."""
import io
import re
import sys
from urllib.parse import unquote_to_bytes

STATUS_RX = re.compile(r'^[1-5][0-9][0-9] [^\r\n]+\Z')


class RawResp(object):
    def __init__(self):
        self.status_line = None
        self.status = None
        self.header_list = None
        self.body = b''
        self.problems = []       # well-formedness problems
        self.exception = None    # exception that escaped the WSGI callable
        self._json = Ellipsis
        self.http_raised = False
        self.escaped = None

    @property
    def headers(self):
        return {k.lower(): v for k, v in (self.header_list or [])
                if isinstance(k, str)}

    @property
    def json(self):
        if self._json is Ellipsis:
            import json
            try:
                self._json = json.loads(self.body.decode('utf-8'))
            except Exception:
                self._json = None
        return self._json


def call(wsgi, method, path, query_string='', headers=None, body=None,
         content_length=Ellipsis):
    """path: percent-encoded text; query_string: raw text after '?'."""
    environ = {
        'REQUEST_METHOD': method,
        'SCRIPT_NAME': '',
        'PATH_INFO': unquote_to_bytes(path).decode('latin-1'),
        'QUERY_STRING': query_string,
        'SERVER_NAME': 'localhost', 'SERVER_PORT': '80',
        'HTTP_HOST': 'localhost:80',
        'SERVER_PROTOCOL': 'HTTP/1.1',
        'wsgi.version': (1, 0), 'wsgi.url_scheme': 'http',
        'wsgi.input': io.BytesIO(body or b''),
        'wsgi.errors': sys.stderr,
        'wsgi.multithread': False, 'wsgi.multiprocess': False,
        'wsgi.run_once': False,
    }
    if body is not None:
        environ['CONTENT_LENGTH'] = str(len(body))
    for k, v in (headers or {}).items():
        if v is None:
            continue
        kk = k.upper().replace('-', '_')
        if kk == 'CONTENT_TYPE':
            environ['CONTENT_TYPE'] = v
        elif kk == 'CONTENT_LENGTH':
            environ['CONTENT_LENGTH'] = v
        else:
            environ['HTTP_' + kk] = v
    out = RawResp()
    captured = {}

    def start_response(status, response_headers, exc_info=None):
        captured['status'] = status
        captured['headers'] = response_headers
        captured['exc_info'] = exc_info is not None
        return lambda data: None

    try:
        it = wsgi(environ, start_response)
        try:
            chunks = []
            for c in it:
                if not isinstance(c, bytes):
                    out.problems.append('body chunk of type %s'
                                        % type(c).__name__)
                    c = str(c).encode('utf-8', 'replace')
                chunks.append(c)
            out.body = b''.join(chunks)
        finally:
            if hasattr(it, 'close'):
                it.close()
    except Exception as exc:   # escaped the whole pipeline
        out.exception = exc
        return out
    st = captured.get('status')
    out.status_line = st
    out.header_list = captured.get('headers')
    if not isinstance(st, str) or not STATUS_RX.match(st):
        out.problems.append('malformed status line %r' % (st,))
        try:
            out.status = int(str(st)[:3])
        except Exception:
            out.status = 0
    else:
        out.status = int(st[:3])
    if not isinstance(out.header_list, list):
        out.problems.append('headers not a list')
        out.header_list = list(out.header_list or [])
    clen = None
    for item in out.header_list:
        if not (isinstance(item, tuple) and len(item) == 2):
            out.problems.append('header item %r' % (item,))
            continue
        k, v = item
        if type(k) is not str or type(v) is not str:
            out.problems.append('header %r: non native-string' % (k,))
            continue
        if '\n' in k or '\r' in k or '\n' in v or '\r' in v:
            out.problems.append('header %s contains CR/LF' % k)
        try:
            v.encode('latin-1')
        except UnicodeEncodeError:
            out.problems.append('header %s not latin-1 encodable' % k)
        if k.lower() == 'content-length':
            clen = v
    if clen is not None and method != 'HEAD':
        if not clen.isdigit() or int(clen) != len(out.body):
            out.problems.append('content-length %r but body has %d bytes'
                                % (clen, len(out.body)))
    return out
