"""pv - runtime-monitoring harness for openstack/placement (see DESIGN.md)."""
import os
import sys

REPO = os.environ.get('PV_REPO', '/repo')
VERIF = os.path.dirname(os.path.dirname(os.path.abspath(__file__)))


def use_repo():
    """Make `import placement` resolve to the working tree under $PV_REPO."""
    if REPO not in sys.path:
        sys.path.insert(0, REPO)
    sys.dont_write_bytecode = True
