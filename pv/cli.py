"""./check <id> [--tier quick|thorough] [--replay file] | ./check --setup

Plans shards, runs each in a fresh interpreter (subprocess, timeout), merges
counters / distinct keys / violations, matches violations against
known_findings.json by mechanism signature, prints the verdict lines, writes
evidence/<id>.json last.  Exit: 0 held, 1 violation, 2 inconclusive.
"""
import argparse
import concurrent.futures
import hashlib
import importlib
import json
import os
import re
import subprocess
import sys
import tempfile
import time

from pv import VERIF, REPO

CHECKS = ['C%02d' % i for i in range(1, 21)]


def load_check(pid):
    return importlib.import_module('pv.checks.%s' % pid.lower())


def load_known():
    path = os.path.join(VERIF, 'known_findings.json')
    if not os.path.exists(path):
        return []
    with open(path) as f:
        data = json.load(f)
    return data.get('findings', [])


def match_known(known, pid, sig):
    for k in known:
        if k.get('status') == 'fixed':
            continue  # a fixed entry suppresses nothing
        if pid not in k['properties']:
            continue
        for pat in k['signatures']:
            if re.fullmatch(pat, sig):
                return k
    return None


def run_shard(pid, spec, timeout):
    with tempfile.TemporaryDirectory(prefix='pvshard-') as td:
        sp = os.path.join(td, 'spec.json')
        op = os.path.join(td, 'out.json')
        with open(sp, 'w') as f:
            json.dump(spec, f)
        env = dict(os.environ)
        env['PYTHONHASHSEED'] = str(spec.get('hashseed', 0))
        env['PYTHONDONTWRITEBYTECODE'] = '1'
        env['PYTHONPATH'] = VERIF + os.pathsep + env.get('PYTHONPATH', '')
        t0 = time.time()
        try:
            p = subprocess.run(
                [sys.executable, '-m', 'pv.worker', pid, sp, op],
                env=env, timeout=timeout, stdout=subprocess.PIPE,
                stderr=subprocess.PIPE, cwd=VERIF)
        except subprocess.TimeoutExpired:
            return {'error': 'watchdog: shard exceeded %ss' % timeout,
                    'spec': spec}
        if not os.path.exists(op):
            return {'error': 'worker died rc=%s: %s' % (
                p.returncode, p.stderr.decode('utf-8', 'replace')[-1500:]),
                'spec': spec}
        with open(op) as f:
            out = json.load(f)
        out['wall'] = time.time() - t0
        return out


def merge(results):
    counters = {}
    distinct = set()
    samples = []
    violations = []
    errors = []
    extra = {}
    for r in results:
        if 'error' in r:
            errors.append(r)
            continue
        for k, v in r.get('counters', {}).items():
            counters[k] = counters.get(k, 0) + v
        distinct.update(r.get('distinct', []))
        for s in r.get('samples', []):
            if len(samples) < 6:
                samples.append(s)
        violations.extend(r.get('violations', []))
        for k, v in r.get('extra', {}).items():
            if isinstance(v, list):
                extra.setdefault(k, [])
                for x in v:
                    if x not in extra[k] and len(extra[k]) < 200:
                        extra[k].append(x)
            elif isinstance(v, dict):
                d = extra.setdefault(k, {})
                for kk, vv in v.items():
                    d[kk] = d.get(kk, 0) + vv
            else:
                extra[k] = extra.get(k, 0) + v
    return counters, distinct, samples, violations, errors, extra


def write_replay(pid, v):
    rdir = os.environ.get('PV_REPLAY_DIR', os.path.join(VERIF, 'replays'))
    os.makedirs(rdir, exist_ok=True)
    blob = json.dumps(v, sort_keys=True, default=str)
    sha = hashlib.sha1(blob.encode()).hexdigest()[:12]
    path = os.path.join(rdir, '%s-%s.json' % (pid, sha))
    with open(path, 'w') as f:
        json.dump(v, f, indent=1, sort_keys=True, default=str)
    return path


def do_setup():
    env = dict(os.environ)
    env['PYTHONPATH'] = VERIF + os.pathsep + env.get('PYTHONPATH', '')
    code = ("from pv.app import App; from pv.client import Client;"
            "a=App(); c=Client(a); r=c.call('GET','/resource_providers');"
            "assert r.status==200, r.status; a.close(); print('setup ok')")
    p = subprocess.run([sys.executable, '-c', code], env=env, cwd=VERIF)
    return p.returncode


def main(argv=None):
    ap = argparse.ArgumentParser()
    ap.add_argument('pid', nargs='?')
    ap.add_argument('--tier', default=os.environ.get('VERIF_TIER', 'quick'))
    ap.add_argument('--replay')
    ap.add_argument('--setup', action='store_true')
    ap.add_argument('--jobs', type=int,
                    default=int(os.environ.get('PV_JOBS', '16')))
    ap.add_argument('--scale', type=float,
                    default=float(os.environ.get('PV_SCALE', '1')))
    args = ap.parse_args(argv)
    if args.setup:
        return do_setup()
    pid = args.pid.upper()
    if pid not in CHECKS:
        print('unknown check %s' % pid)
        return 2
    tier = args.tier if args.tier in ('quick', 'thorough') else 'quick'
    try:
        seed = int(os.environ.get('VERIF_SEED', '0'))
    except ValueError:
        seed = 0
    mod = load_check(pid)
    meta = mod.META
    t0 = time.time()

    if args.replay:
        with open(args.replay) as f:
            wit = json.load(f)
        spec = dict(wit['shard'])
        spec['replay'] = True
        res = run_shard(pid, spec, meta.get('shard_timeout', 3600))
        if 'error' in res:
            print('INCONCLUSIVE property=%s reason=%s' % (pid, res['error']))
            return 2
        hit = [v for v in res.get('violations', [])
               if v['sig'] == wit['sig']]
        other = [v for v in res.get('violations', [])
                 if v['sig'] != wit['sig']]
        for v in hit[:1]:
            print('VIOLATION property=%s replay=%s' % (pid, args.replay))
            print('REPRODUCED property=%s sig=%s' % (pid, v['sig']))
            print(json.dumps(v, indent=1, default=str)[:6000])
        if not hit:
            print('NOT-REPRODUCED property=%s sig=%s (other violations: %d)'
                  % (pid, wit['sig'], len(other)))
        return 1 if hit else 0

    shards = mod.plan(tier, seed, args.scale)
    results = []
    timeout = meta.get('shard_timeout', 3600)
    with concurrent.futures.ThreadPoolExecutor(
            max_workers=max(1, min(args.jobs, len(shards)))) as ex:
        futs = [ex.submit(run_shard, pid, s, timeout) for s in shards]
        for f in futs:
            results.append(f.result())
    counters, distinct, samples, violations, errors, extra = merge(results)

    known = load_known()
    known_hit = {}
    unknown = {}
    for v in violations:
        k = match_known(known, pid, v['sig'])
        if k is not None:
            known_hit.setdefault(k['id'], [k, 0, v])
            known_hit[k['id']][1] += 1
        else:
            unknown.setdefault(v['sig'], []).append(v)

    for kid, (k, n, v) in sorted(known_hit.items()):
        print('KNOWN-FINDING: property=%s %s [%s; seen %d time(s) this run]'
              % (pid, k['what_fails'], kid, n))
    rc = 0
    for sig, vs in sorted(unknown.items()):
        path = write_replay(pid, vs[0])
        print('VIOLATION property=%s replay=%s' % (pid, path))
        print('  signature: %s  (%d occurrence(s))' % (sig, len(vs)))
        print('  what: %s' % vs[0].get('what', '')[:1500])
        rc = 1

    inconclusive = []
    for e in errors:
        inconclusive.append(e['error'])
    for name, floor in meta.get('floors', {}).items():
        if isinstance(floor, dict):
            floor = floor.get(tier, 1)
        if counters.get(name, 0) < floor:
            inconclusive.append('floor %s: %d < %d' % (
                name, counters.get(name, 0), floor))
    if inconclusive and rc == 0:
        for r in inconclusive[:10]:
            print('INCONCLUSIVE property=%s reason=%s' % (pid, r))
        rc = 2

    nd = len(distinct)
    ev = {
        'property_id': pid, 'tier': tier, 'seed': seed,
        'level': meta['level'],
        'coverage': {
            'evaluations': int(counters.get(meta['evaluations'], 0)),
            'distinct_nontrivial': nd,
            'rule': meta['rule'],
            'samples': samples or [{'note': 'no sample recorded'}],
            'counters': counters,
            'shards': len(shards),
            'shard_errors': len(errors),
            'known_findings_seen': {kid: n for kid, (k, n, v)
                                    in known_hit.items()},
            'verdict': {0: 'held on what was observed', 1: 'violated',
                        2: 'inconclusive'}[rc],
            'inconclusive_reasons': inconclusive[:10],
        },
        'assumptions': meta.get('assumptions', []),
        'wall_s': round(time.time() - t0, 2),
        'violations': len(unknown),
    }
    if meta.get('exhaustive'):
        ev['coverage']['exhaustive'] = True
    ev['coverage'].update({k: v for k, v in extra.items()})
    edir = os.environ.get('PV_EVIDENCE_DIR', os.path.join(VERIF, 'evidence'))
    os.makedirs(edir, exist_ok=True)
    with open(os.path.join(edir, '%s.json' % pid), 'w') as f:
        json.dump(ev, f, indent=1, sort_keys=True, default=str)
    print('%s %s: %s; %d evaluations, %d distinct, %d shards, %.1fs' % (
        pid, tier, ev['coverage']['verdict'],
        ev['coverage']['evaluations'], nd, len(shards), ev['wall_s']))
    return rc


if __name__ == '__main__':
    sys.exit(main())
