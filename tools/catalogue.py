#!/venv/bin/python
"""Sensitivity catalogue (DESIGN.md Appendix C): apply each realistic breaking
change to a scratch copy of /repo's HEAD and run the named checks against it
(PV_REPO).  Prints one line per (change, check): CAUGHT / MISSED / INCONCLUSIVE.

usage: tools/catalogue.py [--only C01,C05] [--tests]   (--tests also runs the
pinned suite on the mutant to confirm it still passes)"""
import os
import shutil
import subprocess
import sys
import tempfile

VERIF = os.path.dirname(os.path.dirname(os.path.abspath(__file__)))

# (id, checks, file, old, new, note)
M = []


def m(mid, checks, path, old, new, note=''):
    M.append((mid, checks.split(), path, old, new, note))


A = 'placement/objects/allocation.py'
RP = 'placement/objects/resource_provider.py'
RC = 'placement/objects/research_context.py'
AC = 'placement/objects/allocation_candidate.py'
HA = 'placement/handlers/allocation.py'

m('C01-running-sum', 'C01', A,
  """        if (capacity < (used + amount_needed) or
                capacity < (used + rp_resource_class_sum[rp_uuid][rc_id])):""",
  """        if capacity < (used + amount_needed):""",
  'drop the running per (provider, class) sum of multi-consumer requests')
m('C01-step', 'C01', A,
  """        if (amount_needed < min_unit or amount_needed > max_unit or
                amount_needed % step_size != 0):""",
  """        if (amount_needed < min_unit or amount_needed > max_unit):""",
  'skip step_size')
m('C01-min', 'C01', A,
  """        if (amount_needed < min_unit or amount_needed > max_unit or""",
  """        if (amount_needed > max_unit or""", 'skip min_unit')
m('C01-le', 'C01', A,
  """        if (capacity < (used + amount_needed) or""",
  """        if (capacity + 1 < (used + amount_needed) or""",
  'off-by-one in the capacity comparison')
m('C02-exceeds', 'C02 C03', RC,
  """        for arr in areq.resource_requests:
            key = (arr.resource_provider.id, arr.resource_class)
            psum_res = self.psum_res_by_rp_rc[key]
            if psum_res.used + arr.amount > psum_res.capacity:""",
  """        for arr in areq.resource_requests:
            key = (arr.resource_provider.id, arr.resource_class)
            psum_res = self.psum_res_by_rp_rc[key]
            if arr.amount > psum_res.capacity:""",
  'merged amounts checked against capacity ignoring usage')
m('C02-consolidate', 'C02 C03', AC,
  """                arrs_by_rp_rc[key].amount += arr.amount""",
  """                arrs_by_rp_rc[key].amount = arr.amount""",
  'consolidation overwrites instead of adding')
m('C03-isolate', 'C03', AC,
  """    if group_policy != 'isolate':
""",
  """    if group_policy != 'isolate' or num_granular_groups > 2:
""", 'isolate ignored with three granular groups')
m('C03-rp-or-tree', 'C03', 'placement/objects/rp_candidates.py',
  """            p for p in self.rp_candidates if set([p.id, p.root_id]) & rp_ids)""",
  """            p for p in self.rp_candidates if p.id in rp_ids)""",
  'member_of through the root no longer honoured')
m('C03-same-subtree', 'C03', AC,
  """    if len(rp_uuids) == 1:
        return True
""",
  """    if len(rp_uuids) <= 2:
        return True
""", 'same_subtree not checked for two providers')
m('C03-nested-old', 'C03', RC,
  """        if self._nested_aware or not self.has_trees:
            return allocation_requests, provider_summaries""",
  """        if self._nested_aware or not self.has_trees or True:
            return allocation_requests, provider_summaries""",
  'old microversions see multi-provider-per-tree results')
m('C04-cleanup', 'C04 C12', HA,
  """            with excutils.save_and_reraise_exception():
                if created_new_consumer:
                    delete_consumers([consumer])

    try:
        _create_allocations()""",
  """            with excutils.save_and_reraise_exception():
                pass

    try:
        _create_allocations()""", 'no consumer clean-up after a failed PUT')
m('C05-cas', 'C05 C07', RP,
  """        upd_stmt = _RP_TBL.update().where(sa.and_(
            _RP_TBL.c.id == self.id,
            _RP_TBL.c.generation == rp_gen)).values(""",
  """        upd_stmt = _RP_TBL.update().where(sa.and_(
            _RP_TBL.c.id == self.id)).values(""",
  'provider generation increment without compare')
m('C05-lt', 'C05 C11', 'placement/handlers/inventory.py',
  """    data = _extract_inventories(req.body, schema.PUT_INVENTORY_SCHEMA)
    if data['resource_provider_generation'] != resource_provider.generation:""",
  """    data = _extract_inventories(req.body, schema.PUT_INVENTORY_SCHEMA)
    if data['resource_provider_generation'] < resource_provider.generation:""",
  'PUT inventories accepts a generation from the future')
m('C06-cas', 'C06 C07', 'placement/objects/consumer.py',
  """        upd_stmt = CONSUMER_TBL.update().where(sa.and_(
            CONSUMER_TBL.c.id == self.id,
            CONSUMER_TBL.c.generation == consumer_gen)).values(
            generation=new_generation)""",
  """        upd_stmt = CONSUMER_TBL.update().where(sa.and_(
            CONSUMER_TBL.c.id == self.id)).values(
            generation=new_generation)""",
  'consumer generation increment without compare')
m('C06-skip-compare', 'C06 C11 C12', 'placement/handlers/util.py',
  """            if consumer.generation != consumer_generation:""",
  """            if (consumer_generation is not None and
                    consumer.generation < consumer_generation):""",
  'existing consumer: stale/null generations accepted')
m('C08-inuse', 'C08 C11', RP,
  """    allocations = ctx.session.execute(allocation_query).fetchall()
    if allocations:""",
  """    allocations = ctx.session.execute(allocation_query).fetchall()
    if allocations and len(to_delete) > 1:""",
  'single-class inventory delete skips the in-use check')
m('C08-cascade', 'C08 C11', RP,
  """        RPT_model = models.ResourceProviderTrait
        context.session.query(RPT_model).filter(
            RPT_model.resource_provider_id == _id).delete()
""", """""", 'provider delete keeps trait associations')
m('C08-class-inuse', 'C08 C11 C19', 'placement/objects/resource_class.py',
  """        if num_inv:
            raise exception.ResourceClassInUse(resource_class=name)""",
  """        if num_inv > 1:
            raise exception.ResourceClassInUse(resource_class=name)""",
  'class with exactly one inventory can be deleted')
m('C09-root-rewrite', 'C09 C11', RP,
  """        for rp in subtree_rps:
            # If the parent is not updated""",
  """        for rp in subtree_rps[:2]:
            # If the parent is not updated""",
  'root rewritten for the moved provider and one descendant only')
m('C09-loop', 'C09 C11', RP,
  """                if parent_uuid in subtree_rp_uuids:""",
  """                if parent_uuid == self.uuid:""",
  'loop check against the provider itself only')
m('C10-traits-gen', 'C10', RP,
  """    if to_add:
        _add_traits_to_provider(context, rp.id, to_add)
    rp.increment_generation()""",
  """    if to_add:
        _add_traits_to_provider(context, rp.id, to_add)
        rp.increment_generation()""",
  'removing traits only does not bump the generation')
m('C10-returned', 'C10', 'placement/handlers/aggregate.py',
  None, None, 'placeholder')
m('C11-usage-join', 'C11', 'placement/objects/usage.py',
  """                                 models.Inventory.resource_class_id ==""",
  """                                 models.Inventory.resource_class_id >=""",
  'usages join without the class equality')
m('C12-no-delete', 'C12 C11', 'placement/objects/consumer.py',
  """    del_stmt = CONSUMER_TBL.delete()
    del_stmt = del_stmt.where(CONSUMER_TBL.c.uuid.in_(no_alloc_consumers))
    ctx.session.execute(del_stmt)""",
  """    del_stmt = CONSUMER_TBL.delete()
    del_stmt = del_stmt.where(CONSUMER_TBL.c.uuid.in_(no_alloc_consumers[1:]))
    ctx.session.execute(del_stmt)""",
  'first emptied consumer of a request is not removed')
m('C12-placeholder', 'C12 C11', 'placement/handlers/util.py',
  """        user_id = ctx.config.placement.incomplete_consumer_user_id""",
  """        user_id = ctx.config.placement.incomplete_consumer_project_id""",
  'placeholder user taken from the project option')
m('C13-unknown-agg', 'C13', RP,
  """        rps_in_aggs = res_ctx.provider_ids_matching_aggregates(
            context, member_of)
        if not rps_in_aggs:
            return []
        query = query.where(rp.c.id.in_(rps_in_aggs))""",
  """        rps_in_aggs = res_ctx.provider_ids_matching_aggregates(
            context, member_of)
        if rps_in_aggs:
            query = query.where(rp.c.id.in_(rps_in_aggs))""",
  'member_of matching nobody returns everything')
m('C13-forbidden', 'C13', RP,
  """    if forbidden_traits:
        trait_map""",
  """    if forbidden_traits and required_traits:
        trait_map""", 'forbidden traits only with required traits')
m('C14-version', 'C14', 'placement/handlers/usage.py',
  """    show_consumer_type = want_version.matches((1, 38))""",
  """    show_consumer_type = want_version.matches((1, 37))""",
  'usages grouped one version early')
m('C15-int', 'C15', 'placement/util.py',
  """        try:
            amount = int(amount)
        except ValueError:""",
  """        try:
            amount = int(amount)
        except TypeError:""", 'non-integer amounts escape')
m('C16-can', 'C16', 'placement/handlers/allocation.py',
  """    context.can(policies.ALLOC_DELETE)""",
  """    context.can(policies.ALLOC_LIST)""",
  'DELETE allocations checks the list rule')
m('C17-retry', 'C17', RP,
  """    exception_checker=lambda exc: isinstance(exc, db_exc.DBDuplicateEntry))""",
  """    exception_checker=lambda exc: False)""",
  'aggregate duplicate race no longer retried')
m('C04-consumer-attrs', 'C04 C12', HA,
  """        data_util.update_consumers([consumer], {consumer_uuid: request_attr})

        alloc_obj.replace_all(ctx, allocation_objects)""",
  """        alloc_obj.replace_all(ctx, allocation_objects)""",
  'PUT allocations no longer applies the named project/user/type')
m('C19-nextid', 'C19', 'placement/objects/resource_class.py',
  """        if not max_id or max_id < ResourceClass.MIN_CUSTOM_RESOURCE_CLASS_ID:
            return ResourceClass.MIN_CUSTOM_RESOURCE_CLASS_ID""",
  """        if not max_id:
            return ResourceClass.MIN_CUSTOM_RESOURCE_CLASS_ID""",
  'first custom class id follows the highest standard id')
m('C20-slice', 'C20', RC,
  """                alloc_request_objs = alloc_request_objs[:self._limit]""",
  """                alloc_request_objs = alloc_request_objs[:self._limit + 1]""",
  'limit off by one')
m('C20-choices', 'C20', RC,
  """                alloc_request_objs = random.sample(
                    alloc_request_objs, self._limit)""",
  """                alloc_request_objs = random.choices(
                    alloc_request_objs, k=self._limit)""",
  'random sampling with replacement')


def run(mid, checks, path, old, new, note, tests=False, scale=None):
    if old is None:
        return
    d = tempfile.mkdtemp(prefix='pvcat-', dir='/dev/shm')
    try:
        subprocess.run('git -C /repo archive HEAD | tar -x -C %s' % d,
                       shell=True, check=True)
        p = os.path.join(d, path)
        s = open(p).read()
        if s.count(old) != 1:
            print('%-18s  PATTERN-NOT-FOUND (%d matches)' % (
                mid, s.count(old)))
            return
        open(p, 'w').write(s.replace(old, new))
        if tests:
            r = subprocess.run(['/tmp/agentkit/check_tests.sh', d],
                               capture_output=True, text=True)
            print('%-18s  tests: %s' % (mid, r.stdout.strip().splitlines()[0]
                                        if r.stdout else r.stderr[-200:]))
        for c in checks:
            env = dict(os.environ, PV_REPO=d,
                       PV_EVIDENCE_DIR=os.path.join(d, '.ev'),
                       PV_REPLAY_DIR=os.path.join(d, '.rp'))
            cmd = [os.path.join(VERIF, 'check'), c, '--tier', 'quick']
            if scale:
                cmd += ['--scale', scale]
            r = subprocess.run(cmd, env=env, capture_output=True, text=True,
                               cwd=VERIF)
            sigs = [l.strip()[11:] for l in r.stdout.splitlines()
                    if l.strip().startswith('signature:')]
            verdict = {0: 'MISSED', 1: 'CAUGHT', 2: 'INCONCLUSIVE'}.get(
                r.returncode, 'rc=%d' % r.returncode)
            print('%-18s %s %-12s %s  %s' % (
                mid, c, verdict, note, '; '.join(s[:90] for s in sigs[:2])))
            sys.stdout.flush()
    finally:
        shutil.rmtree(d, ignore_errors=True)


def main():
    only = None
    tests = '--tests' in sys.argv
    scale = None
    for i, a in enumerate(sys.argv):
        if a == '--only':
            only = sys.argv[i + 1].split(',')
        if a == '--scale':
            scale = sys.argv[i + 1]
    for mm in M:
        if only and not any(mm[0].startswith(o) for o in only):
            continue
        run(*mm, tests=tests, scale=scale)


if __name__ == '__main__':
    main()
