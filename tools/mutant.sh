#!/bin/sh
# tools/mutant.sh <patch.diff | -e 'sed-expr' file> -- <check id> [check args...]
# Applies a change to a scratch copy of /repo's HEAD under /dev/shm and runs a check
# against it (PV_REPO); removes the copy afterwards.
set -e
D=$(mktemp -d /dev/shm/pvmut-XXXXXX)
trap 'rm -rf "$D"' EXIT
git -C /repo archive HEAD | tar -x -C "$D"
if [ "$1" = "-e" ]; then
  sed -i "$2" "$D/$3"; shift 3
  (cd "$D" && diff -u /repo/"$(echo)" /dev/null >/dev/null 2>&1 || true)
else
  (cd "$D" && patch -p1 -s < "$1"); shift 1
fi
[ "$1" = "--" ] && shift
cd /verif
for c in "$@"; do
  case "$c" in --*) ARGS="$ARGS $c";; esac
done
for c in "$@"; do
  case "$c" in --*) ;; *) PV_REPO="$D" PV_EVIDENCE_DIR="$D/.ev" PV_REPLAY_DIR="${MUT_REPLAYS:-$D/.rp}" ./check "$c" $ARGS | grep -E "VIOLATION|signature|INCONCLUSIVE|KNOWN|^C[0-9]" | head -${MUT_LINES:-8};; esac
done
