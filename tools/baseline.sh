#!/bin/sh
# Run the pinned suite and compare with BASELINE.json's stable_pass list.
cd /repo && /venv/bin/python -m pytest -q -p no:cacheprovider --timeout=900 -n 8 --junitxml=/tmp/pv-baseline.xml >/tmp/pv-baseline.log 2>&1
/venv/bin/python - <<'PY'
import json, xml.etree.ElementTree as ET
sp = set(json.load(open('/root/.vp/BASELINE.json'))['stable_pass'])
ok = set()
for tc in ET.parse('/tmp/pv-baseline.xml').getroot().iter('testcase'):
    if not any(c.tag in ('failure', 'error', 'skipped') for c in tc):
        ok.add('%s::%s' % (tc.get('classname'), tc.get('name')))
missing = sorted(sp - ok)
print('stable_pass=%d passing_now=%d missing=%d' % (len(sp), len(sp & ok), len(missing)))
for m in missing[:20]:
    print('  NOT PASSING:', m)
raise SystemExit(1 if missing else 0)
PY
