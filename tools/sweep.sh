#!/bin/sh
# tools/sweep.sh <seed>... : all quick tiers under other VERIF_SEED values
# (evidence and replays go to a scratch directory, not to /verif/evidence)
cd "$(dirname "$0")/.."
for s in "$@"; do
  for i in 01 02 03 04 05 06 07 08 09 10 11 12 13 14 15 16 17 18 19 20; do
    D=$(mktemp -d /dev/shm/pvsweep-XXXXXX)
    VERIF_SEED=$s PV_EVIDENCE_DIR=$D/ev PV_REPLAY_DIR=$D/rp ./check C$i 2>&1 | grep -E "VIOLATION|signature|what:|INCONCLUSIVE|^C[0-9]+ quick" | cut -c1-300 | sed "s/^/seed=$s /"
    rm -rf "$D"
  done
done
