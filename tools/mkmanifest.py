#!/venv/bin/python
"""Regenerate MANIFEST.json from the check modules that exist."""
import importlib
import json
import os
import sys

HERE = os.path.dirname(os.path.dirname(os.path.abspath(__file__)))
sys.path.insert(0, HERE)

TEXT = {
    'C01': ('history + table-dump oracle', 'pv-seq', '5/C01',
            'Every accepted allocation write of thousands of generated, '
            'adversarial API histories is judged against the raw table dump '
            '(inventory present, unit constraints, usage <= capacity in IEEE '
            'and exact arithmetic) and every step is checked for over-commit '
            'arising without an inventory change; held-on-K-executions, not '
            'a proof.'),
    'C02': ('claim-back oracle on real candidates', 'pv-seq', '5/C02',
            'Every returned allocation request of generated worlds x queries '
            'is checked structurally against the parsed query and the dump '
            'and then really claimed (PUT /allocations for a fresh consumer) '
            'on a snapshot of the same state.'),
    'C03': ('brute-force reference enumerator vs real answer', 'pv-seq',
            '5/C03',
            'The real answer of GET /allocation_candidates is compared with '
            'a brute-force enumerator written from the property statement, '
            'two-sided (MUST subset of actual subset of MAY), over generated '
            'worlds in the bounded scope and generated queries, under '
            'several hash seeds.'),
    'C04': ('failure-placement histories + dump equality; scheduler runs '
            'with a net-effect monitor per request', 'pv-seq', '5/C04',
            'Rejected writes produced by making the n-th entry of a valid '
            'm-entry write bad for every reason are compared dump-before = '
            'dump-after (generations included); accepted multi-entity writes '
            'are compared with their body (placements, inventories, and the '
            'project/user/type recorded for the consumer). Under the '
            'transaction scheduler the net effect of all commits of a '
            'request answered 4xx must be empty.'),
    'C05': ('deterministic transaction-granularity scheduler', 'pv-sched',
            '5/C05',
            'Pairs/triples of provider-writing requests are run under every '
            '<=2-preemption (thorough: <=3 + random) interleaving of their '
            'database transactions; the committed-state sequence decides '
            'whether a success committed on another generation (every '
            'generation a request carries, at the step where its changes '
            'commit), serial replay of the real code decides equivalence, '
            'requests answered 4xx must change nothing; includes renames / '
            're-parenting (writes without generation) and one request hit '
            'by a deadlock at its COMMIT while a competitor is in flight.'),
    'C06': ('deterministic transaction-granularity scheduler', 'pv-sched',
            '5/C06',
            'Concurrent writers of one consumer under enumerated transaction '
            'interleavings; at most one success per carried generation, a '
            'success moved the generation it carried, final allocations are '
            'those of the last successful writer, losers change nothing; '
            'clearing writes, reshapes naming new consumers and one writer '
            'hit by a deadlock at its COMMIT included.'),
    'C07': ('scheduler + serial replay of the real code', 'pv-sched', '5/C07',
            'For every explored interleaving the concurrent final dump must '
            'equal the dump of some serial order of the successful requests '
            'replayed on a snapshot.'),
    'C08': ('history + referential joins over the dump', 'pv-seq', '5/C08',
            'After every request of generated create/replace/delete '
            'histories the dump is joined for dangling references and the '
            'DELETE refusal rules are checked; the same joins on every '
            'committed state of scheduled races (incl. delete-vs-use) and '
            'after histories whose writes meet injected faults.'),
    'C09': ('history + forest invariant on the table', 'pv-seq', '5/C09',
            'After every request of generated provider-tree histories the '
            'resource_providers table must be a forest with correct roots; '
            'reported parent/root through every listing form are compared '
            'with the table; refusal rules checked; also on every committed '
            'state of scheduled races and after faulted histories.'),
    'C10': ('history + generation-column oracle', 'pv-seq', '5/C10',
            'Generation columns of the dumps around every request, the '
            'generation a write returns, and the generations read back '
            'through every route that reports one; committing steps of '
            'scheduled races.'),
    'C11': ('executable reference model of the API contract', 'pv-seq',
            '5/C11',
            'Status and body of every response of generated histories over '
            'all routes are compared with a dict-based reference model '
            'written from the api-ref; model state compared with the dump '
            'after every request.'),
    'C12': ('history + consumer/allocation row oracle + null-generation '
            'probe', 'pv-seq', '5/C12',
            'Consumer rows vs allocation rows after every request, '
            'attributes vs last successful writer, and re-creatability with '
            'consumer_generation null probed on a snapshot; faulted '
            'histories, scheduled races, legacy consumers healed by the '
            'online migration, single requests naming up to 1001 '
            'consumers.'),
    'C13': ('direct predicate evaluation on the dump', 'pv-seq', '5/C13',
            'GET /resource_providers answers for generated filter '
            'conjunctions (also one class named twice) are compared with '
            'the statement\'s predicate evaluated on the table dump.'),
    'C14': ('exhaustive enumeration of versions x routes x methods + feature '
            'probes', 'pv-seq', '5/C14',
            'Finite space enumerated completely: 42 version settings x every '
            'route x 6 methods, plus ~110 (partly state-dependent) feature '
            'probes at every setting (body members of every allocation-'
            'writing route, headers of every readable route with and '
            'without results); the versions below a feature are probed a '
            'second time after the versions that have it.'),
    'C15': ('grammar-based request mutation + response well-formedness '
            'monitor', 'pv-seq', '5/C15',
            'Hundreds of thousands of mutated requests; every response is '
            'checked for 5xx / escaped exception / error-document shape / '
            'state change on 400-class answers; 5xx classified by the '
            'innermost placement frame.'),
    'C16': ('exhaustive enumeration of operations x caller classes x '
            'single-rule overrides', 'pv-seq', '5/C16',
            'Finite space enumerated completely (operations in the current '
            'and 21 older request formats, aimed at existing, unknown and '
            'bare entities, repeated parameters; overrides loaded at '
            'start and removed from the file of the running service); dump '
            'and SQL statement stream compared around every denied '
            'request.'),
    'C17': ('SQL-statement-indexed fault injection', 'pv-fault', '5/C17',
            'For every statement index of every corpus request one fault of '
            'each kind (and sampled pairs) is injected through SQLAlchemy '
            'events; the outcome must be exactly-once or clean failure '
            'w.r.t. the fault-free twin; requests that are refused anyway '
            'must stay clean failures.'),
    'C18': ('process-kill crash cutting at every statement / commit',
            'pv-crash', '5/C18',
            'A forked child runs the request and os._exit()s at the chosen '
            'point; the recovered database file is dumped and checked.'),
    'C19': ('history with restarts + table oracle', 'pv-seq', '5/C19',
            'traits / resource_classes tables after every request and every '
            'emulated restart (also a failed start-up then a reload in the '
            'same process), from empty / partial / full databases; '
            'scheduled races of creations, deletions, renames and a '
            'start-up synchronisation.'),
    'C20': ('limit sweep against the unlimited answer', 'pv-seq', '5/C20',
            'For generated worlds x queries every limit 1..M+1 under both '
            'randomisation settings and many PRNG seeds.'),
}

NOTE = ('trusted base: SQLite as the DBMS, the harness (pv/), noauth2 '
        'middleware; placement runs unmodified from the working tree; '
        'verdict = held on the executions observed, never a proof')


def main():
    with open(os.path.join(HERE, 'properties.jsonl')) as f:
        props = [json.loads(l) for l in f]
    checks = []
    na = []
    engines = {}
    for p in props:
        pid = p['id']
        path = os.path.join(HERE, 'pv', 'checks', '%s.py' % pid.lower())
        if not os.path.exists(path):
            na.append({'property_id': pid,
                       'reason': 'check not built yet (runtime monitoring '
                                 'applies; see DESIGN.md section 5)'})
            continue
        mod = importlib.import_module('pv.checks.%s' % pid.lower())
        tech, eng, ref, text = TEXT[pid]
        engines.setdefault(eng, []).append(pid)
        checks.append({
            'property_id': pid,
            'quick_cmd': './check %s --tier quick' % pid,
            'thorough_cmd': './check %s --tier thorough' % pid,
            'evidence_file': 'evidence/%s.json' % pid,
            'replay_cmd_template': './check %s --replay {path}' % pid,
            'engine': eng,
            'level_claimed': {'category': mod.META['level'], 'text': text,
                              'design_ref': 'DESIGN.md section ' + ref},
            'level_note': NOTE,
            'technique': 'runtime monitoring: ' + tech,
        })
    kinds = {
        'pv-seq': 'sequential generated histories / enumerations through '
                  'the real WSGI stack with dump, response and SQL-stream '
                  'oracles',
        'pv-sched': 'deterministic transaction-granularity thread scheduler '
                    'over the real code + committed-state history checker',
        'pv-fault': 'SQL-statement-indexed fault injector (SQLAlchemy '
                    'events)',
        'pv-crash': 'fork + os._exit crash cutter with recovery dump',
    }
    m = {
        'version': 1,
        'setup_cmd': './check --setup',
        'hooks': {
            'guard': 'PLACEMENT_VERIF',
            'enable': 'no source hooks are needed: monitors attach from the '
                      'harness process (SQLAlchemy engine events, WSGI '
                      'wrapper substitution, raw sqlite3 dumps); the guard '
                      'name is reserved',
            'baseline_off_cmd': 'cd /repo && /venv/bin/python -m pytest -q '
                                '-p no:cacheprovider --timeout=900',
            'source_commits': [],
            'add_only': True,
        },
        'engines': [{'name': k, 'path': 'pv/', 'serves_properties': v,
                     'kind_free_text': kinds[k]}
                    for k, v in sorted(engines.items())],
        'checks': checks,
        'not_applicable': na,
        'notes': 'All checks: ./check <id> --tier quick|thorough; exit 0 '
                 'held / 1 VIOLATION / 2 INCONCLUSIVE; known findings in '
                 'known_findings.json; fixes of genuine defects are "fix:" '
                 'commits in /repo.',
    }
    with open(os.path.join(HERE, 'MANIFEST.json'), 'w') as f:
        json.dump(m, f, indent=1)
    print('checks: %d, not yet built: %d' % (len(checks), len(na)))


if __name__ == '__main__':
    main()
