#!/bin/sh
# tools/refresh.sh: run all 20 quick tiers in /verif against /repo (VERIF_SEED=1,
# as `vp check` does), so that evidence/*.json is current; then regenerate
# MANIFEST.json
cd "$(dirname "$0")/.."
for i in 01 02 03 04 05 06 07 08 09 10 11 12 13 14 15 16 17 18 19 20; do
  VERIF_SEED=${VERIF_SEED:-1} ./check C$i 2>&1 | grep -E "VIOLATION|signature|what:|INCONCLUSIVE|^KNOWN|^C[0-9]+ quick" | cut -c1-200
done
/venv/bin/python tools/mkmanifest.py >/dev/null && echo "manifest regenerated"
