#!/bin/sh
# Run the thorough tier of the given checks (default: all) one after another.
cd "$(dirname "$0")/.."
CHECKS="${@:-C14 C16 C19 C13 C18 C17 C02 C20 C15 C03 C08 C09 C10 C12 C01 C04 C06 C07 C11 C05}"
for c in $CHECKS; do
  START=$(date +%s)
  ./check $c --tier thorough 2>&1 | grep -v "^  what" | cut -c1-300 | tail -8
  echo "== $c thorough took $(( $(date +%s) - START ))s"
done
