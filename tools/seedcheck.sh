#!/bin/sh
# tools/seedcheck.sh <seed dir with patch.diff demo.py> <check ids...>
# Confirms a seeded change on a scratch copy of /repo HEAD: demo passes without
# and fails with the patch, the pinned suite still passes, then runs the checks.
S="$(cd "$1" && pwd)"; shift
D=$(mktemp -d /dev/shm/pvseed-XXXXXX)
trap 'rm -rf "$D"' EXIT
git -C /repo archive HEAD | tar -x -C "$D"
sed "s#/tmp/w[t0-9]*-C[0-9]*#$D#g" "$S/demo.py" > "$D/demo_seed.py"
(cd "$D" && timeout 600 /venv/bin/python demo_seed.py >"$D/.demo0.log" 2>&1); R0=$?
(cd "$D" && patch -p1 -s < "$S/patch.diff") || { echo "PATCH DOES NOT APPLY"; exit 9; }
(cd "$D" && timeout 600 /venv/bin/python demo_seed.py >"$D/.demo1.log" 2>&1); R1=$?
echo "demo without patch: exit $R0 ; with patch: exit $R1"
[ "$R0" != 0 ] && tail -5 "$D/.demo0.log"
[ "$R1" = 0 ] && tail -5 "$D/.demo1.log"
if [ -z "$SKIP_TESTS" ]; then /tmp/agentkit/check_tests.sh "$D" | head -5; fi
cd /verif
for c in "$@"; do
  case "$c" in
    --*) ARGS="$ARGS $c";;
  esac
done
for c in "$@"; do
  case "$c" in
    --*) ;;
    *) PV_REPO="$D" PV_EVIDENCE_DIR="$D/.ev" PV_REPLAY_DIR="$D/.rp" ./check "$c" $ARGS | grep -E "VIOLATION|signature|INCONCLUSIVE|^C[0-9]" | cut -c1-230 | head -7;;
  esac
done
